// Package qm installs the simulator's workqueue metrics provider.
//
// client-go lets exactly one provider be installed (sync.Once, first caller
// wins). Go initialises packages in import-path order among those whose
// dependencies are ready, and "dst/qm" sorts before
// "sigs.k8s.io/controller-runtime/pkg/metrics", whose init() installs the
// Prometheus provider. So this package wins, and every queue metacontroller
// creates reports add/get/done/retry to the simulator, on the goroutine that
// performs the operation. Installed() lets the harness verify that it did win.
package qm

import (
	"sync"

	"k8s.io/client-go/util/workqueue"
)

// Sink receives queue events. It is set by the harness per run; nil drops them.
type Sink interface {
	QueueEvent(queue string, kind string)
}

var (
	mu   sync.Mutex
	sink Sink
)

func SetSink(s Sink) { mu.Lock(); sink = s; mu.Unlock() }

func emit(q, kind string) {
	mu.Lock()
	s := sink
	mu.Unlock()
	if s != nil {
		s.QueueEvent(q, kind)
	}
}

type provider struct{}

type gauge struct {
	q        string
	inc, dec string
}

func (g gauge) Inc() {
	if g.inc != "" {
		emit(g.q, g.inc)
	}
}
func (g gauge) Dec() {
	if g.dec != "" {
		emit(g.q, g.dec)
	}
}

type counter struct{ q, kind string }

func (c counter) Inc() { emit(c.q, c.kind) }

type hist struct{ q, kind string }

func (h hist) Observe(float64) {
	if h.kind != "" {
		emit(h.q, h.kind)
	}
}

type settable struct{}

func (settable) Set(float64) {}

func (provider) NewDepthMetric(name string) workqueue.GaugeMetric {
	return gauge{q: name, dec: "get"}
}
func (provider) NewAddsMetric(name string) workqueue.CounterMetric {
	return counter{name, "add"}
}
func (provider) NewLatencyMetric(name string) workqueue.HistogramMetric {
	return hist{name, ""}
}
func (provider) NewWorkDurationMetric(name string) workqueue.HistogramMetric {
	return hist{name, "done"}
}
func (provider) NewUnfinishedWorkSecondsMetric(name string) workqueue.SettableGaugeMetric {
	return settable{}
}
func (provider) NewLongestRunningProcessorSecondsMetric(name string) workqueue.SettableGaugeMetric {
	return settable{}
}
func (provider) NewRetriesMetric(name string) workqueue.CounterMetric {
	return counter{name, "retry"}
}

var installed bool

func init() {
	workqueue.SetProvider(provider{})
	installed = true
}

// Probe creates a throw-away named queue and reports whether its events reach
// this package's provider (i.e. whether we won the SetProvider race).
func Probe() bool {
	got := false
	SetSink(sinkFunc(func(q, k string) {
		if q == "dst-probe" && k == "add" {
			got = true
		}
	}))
	q := workqueue.NewTypedWithConfig[any](workqueue.TypedQueueConfig[any]{Name: "dst-probe"})
	q.Add("x")
	q.ShutDown()
	SetSink(nil)
	return got
}

type sinkFunc func(q, k string)

func (f sinkFunc) QueueEvent(q, k string) { f(q, k) }
