// Package simyield is what the yield points that the runner inserts into a
// scratch copy of metacontroller's sources (through `go build -overlay`, see
// cmd/verifcheck/yield.go) call. Outside a simulated run, and in runs that do not
// ask for it, Point does nothing.
package simyield

// Hook is set by the simulator for the duration of a run.
var Hook func()

// Point is called before every mutex Lock/RLock and after every Unlock/RUnlock
// statement of the instrumented packages.
func Point() {
	if h := Hook; h != nil {
		h()
	}
}
