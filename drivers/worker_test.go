package drivers

import (
	"encoding/json"
	"fmt"
	"os"
	"runtime"
	"strconv"
	"testing"

	"dst/qm"
	"dst/sim"
)

func envInt(name string, def int) int {
	if v := os.Getenv(name); v != "" {
		if n, err := strconv.Atoi(v); err == nil {
			return n
		}
	}
	return def
}

type runLine struct {
	Run       int               `json:"run"`
	Steps     int               `json:"steps"`
	Incs      int               `json:"incs"`
	Sim       float64           `json:"sim_s"`
	LogHash   string            `json:"log"`
	Violation string            `json:"violation,omitempty"`
	Class     string            `json:"class,omitempty"`
	Budget    string            `json:"budget,omitempty"`
	Cfg       map[string]string `json:"cfg,omitempty"`
}

func TestWorker(t *testing.T) {
	prop := os.Getenv("DST_PROP")
	if prop == "" {
		t.Skip("DST_PROP not set")
	}
	runtime.GOMAXPROCS(envInt("DST_PROCS", 1))
	runtime.MemProfileRate = 0
	if !qm.Probe() {
		fmt.Println(`{"fatal":"workqueue metrics provider was not installed by dst/qm"}`)
		os.Exit(2)
	}
	mk := sim.Scenarios[prop]
	if mk == nil {
		fmt.Printf("{\"fatal\":\"unknown property %s\"}\n", prop)
		os.Exit(2)
	}
	seed := uint64(envInt("DST_SEED", 1))
	from, to := envInt("DST_FROM", 0), envInt("DST_TO", 1)
	verbose := os.Getenv("DST_VERBOSE") != ""
	enc := json.NewEncoder(os.Stdout)
	for run := from; run < to; run++ {
		tape := sim.NewSeedTape(seed, uint64(run))
		res := sim.RunScenario(t, mk(), tape, seed*1000003+uint64(run))
		l := runLine{Run: run, Steps: res.Steps, Incs: res.Incs, Sim: res.SimSeconds, LogHash: res.LogHash, Cfg: res.World.Cfg}
		if res.Violation != nil {
			l.Violation = res.Violation.String()
			l.Class = res.Violation.Class
		}
		if res.Budget {
			l.Budget = res.BudgetAt
		}
		enc.Encode(l)
		if verbose {
			for _, line := range res.World.Log {
				fmt.Println(line)
			}
		}
		runtime.GC()
	}
}
