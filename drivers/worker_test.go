package drivers

import (
	"strings"
	"bufio"
	"encoding/json"
	"fmt"
	"os"
	"runtime"
	"runtime/debug"
	"runtime/metrics"
	"strconv"
	"testing"
	"time"

	"dst/qm"
	"dst/sim"
)

func envInt(name string, def int) int {
	if v := os.Getenv(name); v != "" {
		if n, err := strconv.Atoi(v); err == nil {
			return n
		}
	}
	return def
}

// RunLine is one line of worker output: the outcome of one simulated run.
type RunLine struct {
	Run          int               `json:"run"`
	Job          int               `json:"job"`
	Steps        int               `json:"steps"`
	Incs         int               `json:"incs"`
	Sim          float64           `json:"sim_s"`
	LogHash      string            `json:"log"`
	StateHash    string            `json:"state"`
	Writes       int               `json:"writes"`
	Hooks        int               `json:"hooks"`
	Reqs         int               `json:"reqs"`
	Faults       map[string]int    `json:"faults,omitempty"`
	Probes       map[string]int    `json:"probes,omitempty"`
	Known        map[string]int    `json:"known,omitempty"`
	Interactions string            `json:"interactions,omitempty"`
	Pos          int               `json:"pos,omitempty"`
	Kind         string            `json:"kind,omitempty"`
	NotFired     bool              `json:"not_fired,omitempty"`
	Violation    string            `json:"violation,omitempty"`
	Prop         string            `json:"prop,omitempty"`
	Class        string            `json:"class,omitempty"`
	VStep        int               `json:"vstep,omitempty"`
	Sig          map[string]string `json:"sig,omitempty"`
	Budget       string            `json:"budget,omitempty"`
	Cfg          map[string]string `json:"cfg,omitempty"`
	TapeLen      int               `json:"tape_len"`
	Tape         []uint32          `json:"tape,omitempty"`
	Log          []string          `json:"eventlog,omitempty"`
	Sample       []string          `json:"sample,omitempty"`
	Race         bool              `json:"race,omitempty"`
}

// Job is one unit of work read from DST_JOBS (one JSON object per line).
type Job struct {
	ID   int      `json:"id"`
	Seed uint64   `json:"seed"`
	Run  int      `json:"run"`
	Tape []uint32 `json:"tape"` // non-nil: replay this tape instead of generating from (seed, run)
	Full bool     `json:"full"` // include tape and event log in the output
	// fault enumeration: Ref = reference run (record the interaction sequence, no fault);
	// Kind != "" = inject Kind at the Pos-th in-sync interaction of the armed stage
	Ref  bool   `json:"ref,omitempty"`
	Pos  int    `json:"pos,omitempty"`
	Kind string `json:"kind,omitempty"`
}

func TestWorker(t *testing.T) {
	prop := os.Getenv("DST_PROP")
	if prop == "" {
		t.Skip("DST_PROP not set")
	}
	out := bufio.NewWriter(os.Stdout)
	defer out.Flush()
	enc := json.NewEncoder(out)
	runtime.GOMAXPROCS(envInt("DST_PROCS", 1))
	runtime.MemProfileRate = 0
	// No garbage collection may run concurrently with a simulated run: GC
	// workers and stack scans preempt goroutines at wall-clock-dependent
	// moments. Collection happens between runs only, synchronously.
	debug.SetGCPercent(-1)
	if os.Getenv("GOGC") != "off" {
		fmt.Fprintln(out, `{"fatal":"the worker must be started with GOGC=off: a garbage collection before or during a run makes goroutine order depend on wall-clock time"}`)
		out.Flush()
		os.Exit(2)
	}
	if !qm.Probe() {
		fmt.Fprintln(out, `{"fatal":"workqueue metrics provider was not installed by dst/qm"}`)
		out.Flush()
		os.Exit(2)
	}
	// memory watchdog: nothing is collected during a run, so a run-away oracle must not take the machine down
	go func() {
		limit := uint64(envInt("DST_HARDHEAP_MB", 6000)) << 20
		for {
			time.Sleep(200 * time.Millisecond)
			if heapBytes() > limit {
				fmt.Fprintln(os.Stdout, `{"fatal":"worker heap exceeded the hard limit (no GC runs inside a simulated run)"}`)
				os.Exit(3)
			}
		}
	}()
	installRaceOracle()
	mk := sim.Scenarios[prop]
	if mk == nil {
		fmt.Fprintf(out, "{\"fatal\":\"unknown property %s\"}\n", prop)
		out.Flush()
		os.Exit(2)
	}
	var jobs []Job
	if jf := os.Getenv("DST_JOBS"); jf != "" {
		f, err := os.Open(jf)
		if err != nil {
			fmt.Fprintf(out, "{\"fatal\":%q}\n", err.Error())
			out.Flush()
			os.Exit(2)
		}
		sc := bufio.NewScanner(f)
		sc.Buffer(make([]byte, 1<<20), 1<<26)
		for sc.Scan() {
			var j Job
			if err := json.Unmarshal(sc.Bytes(), &j); err == nil {
				jobs = append(jobs, j)
			}
		}
		f.Close()
	} else {
		seed := uint64(envInt("DST_SEED", 1))
		for run := envInt("DST_FROM", 0); run < envInt("DST_TO", 1); run++ {
			jobs = append(jobs, Job{ID: run, Seed: seed, Run: run, Full: os.Getenv("DST_VERBOSE") != ""})
		}
	}
	var known []sim.KnownFinding
	if kf := os.Getenv("DST_KNOWN"); kf != "" {
		if b, err := os.ReadFile(kf); err == nil {
			var f struct {
				Findings []sim.KnownFinding `json:"findings"`
			}
			if json.Unmarshal(b, &f) == nil {
				known = f.Findings
			}
		}
	}
	sample := envInt("DST_SAMPLE", 0)
	for _, j := range jobs {
		// announce the job first: if the process dies the runner knows which one was in flight
		fmt.Fprintf(out, "{\"start\":%d}\n", j.ID)
		out.Flush()
		var tape *sim.Tape
		if j.Tape != nil {
			tape = sim.NewReplayTape(j.Tape)
		} else {
			tape = sim.NewSeedTape(j.Seed, uint64(j.Run))
		}
		var plan *sim.FaultPlan
		if j.Ref {
			plan = &sim.FaultPlan{Pos: -1}
		} else if j.Kind != "" {
			plan = &sim.FaultPlan{Pos: j.Pos, Kind: strings.TrimSuffix(j.Kind, "+again"), Again: strings.HasSuffix(j.Kind, "+again")}
		}
		// wall-clock watchdog: a run that does not finish is a harness failure, never a verdict
		runDone := make(chan struct{})
		go func(id int) {
			select {
			case <-runDone:
			case <-time.After(time.Duration(envInt("DST_RUN_WALL_S", 180)) * time.Second):
				fmt.Fprintf(os.Stdout, "{\"fatal\":\"run (job %d) did not finish within the wall-clock limit: a goroutine is blocked non-durably (e.g. on a mutex held by a parked call)\"}\n", id)
				os.Exit(4)
			}
		}(j.ID)
		res := sim.RunScenario(t, mk(), tape, j.Seed*1000003+uint64(j.Run), known, plan)
		close(runDone)
		w := res.World
		l := RunLine{Run: j.Run, Job: j.ID, Steps: res.Steps, Incs: res.Incs, Sim: res.SimSeconds, LogHash: res.LogHash,
			StateHash: w.AbstractState(), Writes: w.CountWrites(), Hooks: len(w.Hooks), Reqs: len(w.Reqs), Faults: w.FaultsFired, Probes: w.Probes,
			Cfg: w.Cfg, TapeLen: len(res.Tape), Known: w.KnownSeen, Pos: j.Pos, Kind: j.Kind, Race: raceBuild}
		if j.Ref {
			l.Interactions = string(w.Interactions)
		}
		if plan != nil && j.Kind != "" && !plan.Fired {
			l.NotFired = true
		}
		if res.Violation != nil {
			l.Violation = res.Violation.String()
			l.Prop = res.Violation.Prop
			l.Class = res.Violation.Class
			l.VStep = res.Violation.Step
			l.Sig = res.Violation.Sig
		}
		if res.Budget {
			l.Budget = res.BudgetAt
		}
		if j.Full {
			l.Tape = res.Tape
			l.Log = w.Log
		}
		if sample > 0 && j.ID < sample {
			l.Sample = w.ShortLog(40)
		}
		enc.Encode(l)
		out.Flush()
		if os.Getenv("DST_VERBOSE") != "" {
			for _, line := range w.Log {
				fmt.Fprintln(out, line)
			}
			seenErr := map[string]int{}
			for _, e := range w.Errs {
				seenErr[e.Msg]++
			}
			for m, n := range seenErr {
				fmt.Fprintf(out, "ERR x%d: %s\n", n, m)
			}
			if os.Getenv("DST_DUMP") != "" {
				fmt.Fprintln(out, w.DumpStore(os.Getenv("DST_DUMP")))
			}
		}
		// no collection between runs either (see above); the runner bounds the
		// number of runs per process instead
		if heapBytes() > uint64(envInt("DST_MAXHEAP_MB", 1500))<<20 {
			fmt.Fprintln(out, `{"recycle":true}`)
			break
		}
	}
}

func heapBytes() uint64 {
	s := []metrics.Sample{{Name: "/memory/classes/heap/objects:bytes"}}
	metrics.Read(s)
	return s[0].Value.Uint64()
}
