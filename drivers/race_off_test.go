//go:build !race

package drivers

const raceBuild = false

func installRaceOracle() {}
