//go:build race

package drivers

import (
	"fmt"
	"os"
	"runtime"

	"dst/sim"
)

const raceBuild = true

// installRaceOracle lets the kernel ask the race detector after every step.
// The detector writes its reports to GORACE's log_path (suffix ".<pid>"); the
// runner passes the same path in DST_RACELOG.
func installRaceOracle() {
	sim.RaceErrors = runtime.RaceErrors
	path := os.Getenv("DST_RACELOG")
	if path == "" {
		return
	}
	path = fmt.Sprintf("%s.%d", path, os.Getpid())
	var off int64
	sim.RaceReport = func() string {
		f, err := os.Open(path)
		if err != nil {
			return ""
		}
		defer f.Close()
		st, err := f.Stat()
		if err != nil || st.Size() <= off {
			return ""
		}
		buf := make([]byte, st.Size()-off)
		n, _ := f.ReadAt(buf, off)
		off += int64(n)
		return string(buf[:n])
	}
}
