module dst

// This denotes the minimum supported language version and
// should not include the patch version.
go 1.26

require (
	github.com/evanphx/json-patch/v5 v5.9.0
	github.com/go-logr/logr v1.4.2
	github.com/google/go-cmp v0.6.0
	github.com/nsf/jsondiff v0.0.0-20230430225905-43f6cf3098c1 // test
	github.com/prometheus/client_golang v1.20.5
	github.com/stretchr/testify v1.10.0 //test
	go.uber.org/zap v1.27.0
	k8s.io/api v0.32.0
	k8s.io/apiextensions-apiserver v0.32.0
	k8s.io/apimachinery v0.32.0
	k8s.io/client-go v0.32.0
	k8s.io/klog/v2 v2.130.1
	k8s.io/utils v0.0.0-20241210054802-24370beab758
	sigs.k8s.io/controller-runtime v0.19.3
	sigs.k8s.io/json v0.0.0-20241014173422-cfa47c3a1cc8
	zgo.at/zcache/v2 v2.1.0
)

require (
	github.com/cespare/xxhash/v2 v2.3.0
	github.com/pkg/errors v0.9.1
)

require (
	github.com/beorn7/perks v1.0.1 // indirect
	github.com/cespare/xxhash v1.1.0 // indirect
	github.com/davecgh/go-spew v1.1.2-0.20180830191138-d8f796af33cc // indirect
	github.com/emicklei/go-restful/v3 v3.11.0 // indirect
	github.com/fxamacker/cbor/v2 v2.7.0 // indirect
	github.com/go-logr/zapr v1.3.0 // indirect
	github.com/go-openapi/jsonpointer v0.21.0 // indirect
	github.com/go-openapi/jsonreference v0.20.2 // indirect
	github.com/go-openapi/swag v0.23.0 // indirect
	github.com/gogo/protobuf v1.3.2 // indirect
	github.com/golang/protobuf v1.5.4 // indirect
	github.com/google/gnostic-models v0.6.8 // indirect
	github.com/google/gofuzz v1.2.0 // indirect
	github.com/google/uuid v1.6.0 // indirect
	github.com/josharian/intern v1.0.0 // indirect
	github.com/json-iterator/go v1.1.12 // indirect
	github.com/klauspost/compress v1.17.9 // indirect
	github.com/mailru/easyjson v0.7.7 // indirect
	github.com/modern-go/concurrent v0.0.0-20180306012644-bacd9c7ef1dd // indirect
	github.com/modern-go/reflect2 v1.0.2 // indirect
	github.com/munnerz/goautoneg v0.0.0-20191010083416-a7dc8b61c822 // indirect
	github.com/pmezard/go-difflib v1.0.1-0.20181226105442-5d4384ee4fb2 // indirect
	github.com/prometheus/client_model v0.6.1 // indirect
	github.com/prometheus/common v0.55.0 // indirect
	github.com/prometheus/procfs v0.15.1 // indirect
	github.com/spf13/pflag v1.0.5 // indirect
	github.com/x448/float16 v0.8.4 // indirect
	go.uber.org/multierr v1.11.0 // indirect
	golang.org/x/exp v0.0.0-20240719175910-8a7402abbf56 // indirect
	golang.org/x/net v0.30.0 // indirect
	golang.org/x/oauth2 v0.23.0 // indirect
	golang.org/x/sys v0.30.0 // indirect
	golang.org/x/term v0.29.0 // indirect
	golang.org/x/text v0.22.0 // indirect
	golang.org/x/time v0.7.0 // indirect
	gomodules.xyz/jsonpatch/v2 v2.4.0 // indirect
	google.golang.org/protobuf v1.35.1 // indirect
	gopkg.in/evanphx/json-patch.v4 v4.12.0 // indirect
	gopkg.in/inf.v0 v0.9.1 // indirect
	gopkg.in/yaml.v3 v3.0.1 // indirect
	k8s.io/kube-openapi v0.0.0-20241105132330-32ad38e42d3f // indirect
	sigs.k8s.io/structured-merge-diff/v4 v4.4.2 // indirect
	sigs.k8s.io/yaml v1.4.0 // indirect
)

replace (
	golang.org/x/net => golang.org/x/net v0.36.0
	k8s.io/apiextensions-apiserver => k8s.io/apiextensions-apiserver v0.32.0
	k8s.io/apimachinery => k8s.io/apimachinery v0.32.0
	k8s.io/client-go => k8s.io/client-go v0.32.0
)

require metacontroller v0.0.0

replace metacontroller => /repo
