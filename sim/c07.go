package sim

import (
	"fmt"
	"strings"
)

// RollingOpts bounds a generated rolling-update scenario.
type RollingOpts struct {
	AllowCluster bool
	OwnUpdated   int // 0 draw, 1 always, -1 never
	MaxReplicas  int
	Workers      int
	MaxParents   int  // >1: draw 1..MaxParents parents
	Customize    bool // draw whether the controller has a customize hook (valid related rules only)
}

// newRollingSetup builds a composite controller with one rolling child kind.
func newRollingSetup(w *World, ro RollingOpts) *Setup {
	t := w.T
	InstallUniverse(w)
	cfg := &CompositeCfg{Name: "cc", Ver: 1, Parent: ResThing}
	if ro.AllowCluster && t.Pick(4, "scope") == 3 {
		cfg.Parent = ResClusterThing
	}
	method := []string{"RollingInPlace", "RollingRecreate"}[t.Pick(2, "rmethod")]
	kind := []*Resource{ResWidget, ResGadget, ResConfigMap}[t.Pick(3, "rkind")]
	rule := ChildRule{Res: kind, Method: method}
	healthyStatus := "True"
	switch t.Pick(4, "checks") {
	case 1:
		rule.StatusChecks = []Object{{"type": "Ready", "status": "True"}}
	case 2:
		rule.StatusChecks = []Object{{"type": "Ready", "status": "True", "reason": "Sim"}}
	case 3:
		// only type and reason are checked: the condition's status may be anything
		rule.StatusChecks = []Object{{"type": "Ready", "reason": "Sim"}}
		healthyStatus = []string{"True", "False", "Unknown"}[t.Pick(3, "healthystatus")]
	}
	cfg.Children = []ChildRule{rule}
	if t.Pick(3, "second") == 2 {
		k2 := ResConfigMap
		if kind == ResConfigMap {
			k2 = ResWidget
		}
		cfg.Children = append(cfg.Children, ChildRule{Res: k2, Method: []string{"InPlace", "Recreate", "OnDelete"}[t.Pick(3, "m2")]})
	}
	if t.Pick(2, "fieldpaths") == 1 {
		cfg.FieldPaths = []string{"spec.template"}
	}
	cfg.GenerateSelector = t.Pick(4, "gensel") == 3
	opts := &BootOptions{Composites: []*CompositeCfg{cfg}}
	opts.Proc.Workers = 1
	if ro.Workers > 1 {
		opts.Proc.Workers = 1 + t.Pick(ro.Workers, "workers")
	}
	tp := &TemplateProgram{ParentKey: "parent", ChildrenKey: "children"}
	for _, r := range cfg.Children {
		tp.Kinds = append(tp.Kinds, r.Res)
	}
	tp.SetNamespace = t.Pick(2, "setns") == 1
	tp.Descending = t.Pick(3, "descending") == 2
	switch ro.OwnUpdated {
	case 0:
		tp.OwnUpdated = t.Pick(4, "ownupdated") == 3
	case 1:
		tp.OwnUpdated = true
	}
	if tp.OwnUpdated {
		// ... with a status the controller's own verdict can coincide with
		tp.OwnUpdatedAs = []string{"", "True", "False", "echo"}[t.Pick(4, "ownupdatedas")]
	}
	s := &Setup{W: w, Cfg: cfg, Opts: opts, TP: tp, HealthyStatus: healthyStatus}
	s.OddObsGen = []string{"", "", "", "", "string", "fraction"}[t.Pick(6, "obsgen")]
	w.Cfg["observedGeneration"] = map[string]string{"": "integer", "string": "string", "fraction": "fraction"}[s.OddObsGen]
	mustCreate(w.Store, ResCompositeCtl, "", cfg.Object(), "setup")
	s.Progs = Programs{"cc": &Program{Sync: tp.SyncResponse, Finalize: tp.FinalizeResponse}}
	w.HookProgram = s.Progs.Answer
	StandardBoot(w, opts)
	mr := ro.MaxReplicas
	if mr == 0 {
		mr = 4
	}
	ns := ""
	if cfg.Parent.Namespaced {
		ns = Namespaces[t.Pick(2, "pns")]
	}
	mustCreate(w.Store, cfg.Parent, ns, NewThing(cfg.Parent, ns, "p0", 1+t.Pick(mr, "replicas"), "c0"), "user")
	s.Parents = []ParentRef{{cfg.Parent, ns, "p0"}}
	if ro.MaxParents > 1 {
		for i, n := 1, 1+t.Pick(ro.MaxParents, "nparents"); i < n; i++ {
			pns := ns
			if cfg.Parent.Namespaced {
				pns = Namespaces[t.Pick(2, "pns")]
			}
			name := fmt.Sprintf("p%d", i)
			mustCreate(w.Store, cfg.Parent, pns, NewThing(cfg.Parent, pns, name, 1+t.Pick(mr, "replicas"), "c0"), "user")
			s.Parents = append(s.Parents, ParentRef{cfg.Parent, pns, name})
		}
	}
	if ro.Customize && t.Pick(3, "customize") > 0 {
		cfg.Customize = true
		EditObject(w, ResCompositeCtl, "", cfg.Name, "setup", func(o Object) { o["spec"] = cfg.Object()["spec"] })
		s.Progs["cc"].Customize = CustomizeFromSpec("parent")
		populateRelated(w)
		for _, p := range s.Parents {
			rules := drawRelatedRules(t, p.NS, -1)
			EditObject(w, p.Res, p.NS, p.Name, "setup", func(o Object) { setPath(o, rules, "spec", "related") })
		}
		w.InlineUnsyncedHooks = true
	}
	w.Cfg["customize"] = fmt.Sprint(cfg.Customize)
	w.Cfg["parents"] = fmt.Sprint(len(s.Parents))
	s.Sig = compositeSig(cfg, opts)
	s.Sig["method"] = method
	s.Sig["ownUpdated"] = fmt.Sprint(tp.OwnUpdated)
	w.Cfg["ownUpdatedAs"] = tp.OwnUpdatedAs
	s.Sig["statusChecks"] = fmt.Sprint(len(rule.StatusChecks) > 0)
	w.Cfg["parent"] = cfg.Parent.Kind
	w.Cfg["rolling"] = kind.Kind + ":" + method
	w.Cfg["checks"] = fmt.Sprintf("%s healthy=%s", jsonString(rule.StatusChecks), healthyStatus)
	w.Cfg["fieldPaths"] = strings.Join(cfg.FieldPaths, ",")
	w.Cfg["gensel"] = fmt.Sprint(cfg.GenerateSelector)
	w.Cfg["ownUpdated"] = fmt.Sprint(tp.OwnUpdated)
	w.Cfg["second"] = fmt.Sprint(len(cfg.Children) > 1)
	w.Cfg["hookOrder"] = map[bool]string{true: "descending", false: "ascending"}[tp.Descending]
	return s
}

func (s *Setup) rollingRule() *ChildRule {
	for i := range s.Cfg.Children {
		if isRolling(s.Cfg.Children[i].Method) {
			return &s.Cfg.Children[i]
		}
	}
	return nil
}

// C07Scenario: rolling updates move one child per sync, in hook order, gated on health.
func C07Scenario() *Scenario {
	return &Scenario{Prop: "C07", Init: func(w *World) {
		t := w.T
		s := newRollingSetup(w, RollingOpts{})
		b := &EnvBudget{Left: 3 + t.Pick(6, "envbudget")}
		chaos := true
		w.EnvOps = func(w *World) []EnvOp {
			var ops []EnvOp
			if chaos {
				ops = append(ops, s.ParentEdits(b)...)
				if b.Left > 0 {
					for _, c := range s.allChildren() {
						c := c
						res := resOf(w, c)
						ops = append(ops, EnvOp{"delete " + res.Kind + "/" + mstr(c, "name"), func(w *World) {
							b.take()
							w.Store.Delete(res, mstr(c, "namespace"), mstr(c, "name"), DeleteOpts{}, "user")
						}})
					}
				}
				ops = append(ops, s.StatusActor(false)...)
			}
			ops = append(ops, s.StatusActor(true)...)
			return ops
		}
		pol := lagPolicy(t)
		pol.EnvProb = 150
		w.Cfg["policy"] = pol.Name
		w.Stages = []Stage{
			{Name: "converge", Quiet: true, MaxSteps: 3000, Policy: &Policy{Name: "fair+status", EnvWhenIdle: true}, Do: func(w *World) { chaos = false }},
			{Name: "rollout", Policy: pol, Steps: 150 + 100*t.Pick(4, "len"), Do: func(w *World) { chaos = true }},
			{Name: "settle", Quiet: true, MaxSteps: 5000, Policy: &Policy{Name: "fair+status", EnvWhenIdle: true}, Do: func(w *World) { chaos = false; b.Left = 0 },
				Check: func(w *World) *Violation { return c07Oracle(w, s) }},
		}
	}}
}

func updatedCondition(status interface{}) Object {
	for _, c := range getList(status, "conditions") {
		if getStr(c, "type") == "Updated" {
			m, _ := c.(map[string]interface{})
			return m
		}
	}
	return nil
}

// c07Oracle checks each completed rolling sync.
func c07Oracle(w *World, s *Setup) *Violation {
	report := func(v *Violation) *Violation {
		if w.Known(v) {
			return nil
		}
		return v
	}
	rule := s.rollingRule()
	paths := fieldPathsOf(s.Cfg)
	for _, rs := range buildRollSyncs(w, s) {
		sy := rs.sy
		where := fmt.Sprintf("sync started at step %d (%d live revisions before, %d after)", sy.StartStep, len(rs.before), len(rs.after))
		// I4: every hook request parent is the latest parent with the revisioned fields of some live revision
		for key, h := range rs.calls {
			if h == rs.latest {
				continue
			}
			ok := false
			for _, r := range rs.before {
				if jsonString(applyFieldPaths(rs.parent, r.Patch, paths)) == key {
					ok = true
				}
			}
			if !ok {
				if v := report(&Violation{Prop: "C07", Class: "old-revision-request-wrong-parent", Sig: s.Sig, Step: h.ParkStep,
					Detail: fmt.Sprintf("%s: a hook request carries a parent that is neither the latest one nor the latest one with the revisioned fields (%v) of a live revision: spec %s", where, paths, jsonString(getPath(h.Req, "parent", "spec")))}); v != nil {
					return v
				}
			}
		}
		if !rs.complete || sy.EndStep == 0 {
			continue
		}
		latestDesired := rs.desired[""]
		if latestDesired == nil {
			continue
		}
		latestBefore := ""
		latestPatch := jsonString(makeFieldPatch(rs.parent, paths))
		for _, r := range rs.before {
			if jsonString(r.Patch) == latestPatch {
				latestBefore = r.Name
			}
		}
		onLatestBefore := func(key string) bool {
			for _, r := range rs.before {
				if r.Name == latestBefore && r.claims(key) {
					return true
				}
			}
			return false
		}
		claimedBefore := func(key string) bool {
			for _, r := range rs.before {
				if r.claims(key) {
					return true
				}
			}
			return false
		}
		onLatestAfter := func(key string) bool {
			for _, r := range rs.after {
				if r.Name == rs.latestRev && r.claims(key) {
					return true
				}
			}
			return false
		}
		revisionWritesOK := true
		for _, q := range sy.Reqs {
			if q.Res == ResRevision && q.IsWrite() && !accepted(q) {
				revisionWritesOK = false
			}
		}
		if !revisionWritesOK {
			continue
		}
		// needsChange: in every cache version the sync could have read, the child did not already hold the latest desired state
		needsChange := func(key string) bool {
			for _, ver := range rs.observedVersions(w, s, key) {
				if ver != nil && desiredContained(ver, latestDesired[key]) {
					return false
				}
			}
			return true
		}
		mayNeedChange := func(key string) bool {
			for _, ver := range rs.observedVersions(w, s, key) {
				if ver == nil || !desiredContained(ver, latestDesired[key]) {
					return true
				}
			}
			return false
		}
		var movedReal []string
		var candidates []string // in the latest answer's order: not on latest before, claimed by an older revision, needing a change
		for _, key := range rs.order {
			if onLatestBefore(key) || !claimedBefore(key) {
				continue
			}
			if needsChange(key) {
				candidates = append(candidates, key)
				if onLatestAfter(key) {
					movedReal = append(movedReal, key)
				}
			}
		}
		// I1: at most one real move, and it is the first candidate (a child that may have looked up to date may legitimately go first)
		if len(movedReal) > 1 {
			if v := report(&Violation{Prop: "C07", Class: "more-than-one-child-moved", Sig: s.Sig, Step: sy.EndStep,
				Detail: fmt.Sprintf("%s: children %v, all needing a real change, were moved to the latest revision in one sync (before: %s; after: %s)", where, movedReal, sortedClaims(rs.before), sortedClaims(rs.after))}); v != nil {
				return v
			}
		}
		w.Probe("c07:sync-judged")
		if len(rs.before) > 1 {
			w.Probe("c07:sync-with-several-revisions")
		}
		if len(candidates) > 0 && len(movedReal) == 0 {
			w.Probe("c07:rollout-waiting")
		}
		if len(movedReal) == 1 {
			w.Probe("c07:real-move")
			firstPossible := ""
			for _, key := range rs.order {
				if onLatestBefore(key) || !claimedBefore(key) {
					continue
				}
				if mayNeedChange(key) {
					firstPossible = key
					break
				}
			}
			if firstPossible != "" && movedReal[0] != firstPossible && movedReal[0] != candidates[0] {
				if v := report(&Violation{Prop: "C07", Class: "moved-out-of-hook-order", Sig: s.Sig, Step: sy.EndStep,
					Detail: fmt.Sprintf("%s: %s was moved to the latest revision although %s comes first in the hook's order and still needs updating", where, movedReal[0], candidates[0])}); v != nil {
					return v
				}
			}
			// I2: the gate — every child already on the latest revision was healthy in some view
			for _, key := range rs.order {
				// on the latest revision: recorded there before this sync, or handed to it by
				// this sync without needing a change - a child no revision claimed yet (just
				// scaled up) or one whose content already is the latest desired state
				joined := onLatestAfter(key) && key != movedReal[0] && (!claimedBefore(key) || !mayNeedChange(key))
				if !onLatestBefore(key) && !joined {
					continue
				}
				if joined && !onLatestBefore(key) {
					w.Probe("c07:gate-includes-child-joined-in-this-sync")
				}
				ok := false
				for _, ver := range rs.observedVersions(w, s, key) {
					if rs.healthy(w, s, key, ver) {
						ok = true
					}
				}
				w.Probe("c07:gate-evaluated")
				if !ok {
					if v := report(&Violation{Prop: "C07", Class: "moved-past-unhealthy-child", Sig: s.Sig, Step: sy.EndStep,
						Detail: fmt.Sprintf("%s: %s was moved to the latest revision although %s, already on it, was missing, not up to date, had not observed its generation or failed the status checks in every view of this sync", where, movedReal[0], key)}); v != nil {
						return v
					}
				}
			}
		}
		// I3: children are written towards the desired state of the revision that claims them after this sync
		for _, q := range sy.Reqs {
			if q.Res != rule.Res || !accepted(q) || q.Post == nil || (q.Verb != "create" && q.Verb != "update") {
				continue
			}
			body, err := parse(q.Body)
			if err != nil {
				continue
			}
			if q.Verb == "update" && sameExceptOwnership(mustParse(q.Pre), mustParse(q.Post)) {
				continue // adoption edit
			}
			key := claimKey(rule.Res.Group, rule.Res.Kind, mstr(body, "name"))
			rev := rs.claimant(rs.after, key)
			want := latestDesired[key]
			wantRev := "latest"
			if rev != "" && rev != rs.latestRev {
				if d, ok := rs.desired[rev]; ok {
					want = d[key]
					wantRev = rev
				} else {
					continue
				}
			}
			if want == nil {
				continue
			}
			wc := deepCopy(want)
			delete(meta(wc), "namespace")
			if wantRev == "latest" {
				w.Probe("c07:child-write-latest")
			} else {
				w.Probe("c07:child-write-old-revision")
			}
			if !contains(body, wc) {
				if v := report(&Violation{Prop: "C07", Class: "child-written-towards-wrong-revision", Sig: s.Sig, Step: q.Step,
					Detail: fmt.Sprintf("%s: %s %s is claimed by revision %s after this sync, but the written object %s does not contain that revision's desired state %s", where, q.Method, key, wantRev, jsonString(body[childContentField(rule.Res)]), jsonString(wc[childContentField(rule.Res)]))}); v != nil {
					return v
				}
			}
		}
		// I5: the Updated condition written (or left) by this sync
		var statusBody Object
		for _, q := range sy.Reqs {
			if q.Res == s.Cfg.Parent && q.Verb == "update" && q.Sub == "status" {
				if b, err := parse(q.Body); err == nil {
					statusBody = b
				}
			}
		}
		var cond Object
		if statusBody != nil {
			cond = updatedCondition(statusBody["status"])
		} else {
			// the write was skipped: the live status already equals what the sync computed
			for i := len(sy.Reqs) - 1; i >= 0; i-- {
				q := sy.Reqs[i]
				if q.Res == s.Cfg.Parent && q.Verb == "get" && q.Code == 200 && q.Post != nil {
					cond = updatedCondition(mustParse(q.Post)["status"])
					break
				}
			}
		}
		allOnLatest := true
		for _, key := range rs.order {
			if !onLatestAfter(key) {
				allOnLatest = false
			}
		}
		moved := false
		for _, key := range rs.order {
			if !onLatestBefore(key) && claimedBefore(key) && onLatestAfter(key) && mayNeedChange(key) {
				moved = true
			}
		}
		wantStatus, wantReason := "", ""
		switch {
		case allOnLatest && !moved:
			wantStatus, wantReason = "True", "OnLatestRevision"
		case moved:
			wantStatus, wantReason = "False", "RolloutProgressing"
		case len(candidates) > 0:
			wantStatus, wantReason = "False", "RolloutWaiting"
		}
		if wantStatus != "" {
			got, gotReason := getStr(cond, "status"), getStr(cond, "reason")
			if cond == nil || got != wantStatus || (gotReason != wantReason && !(wantReason == "RolloutProgressing" && got == "False")) {
				// a no-op move of a child that looked up to date may also be reported as complete
				if !(moved && len(movedReal) == 0 && allOnLatest && got == "True") {
					if v := report(&Violation{Prop: "C07", Class: "updated-condition-wrong", Sig: s.Sig, Step: sy.EndStep,
						Detail: fmt.Sprintf("%s: parent status condition Updated is %s, expected status=%s reason=%s (all on latest after: %v, moved: %v, waiting candidates: %v)", where, jsonString(cond), wantStatus, wantReason, allOnLatest, moved, candidates)}); v != nil {
						return v
					}
				}
			}
		}
	}
	return nil
}
