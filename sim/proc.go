package sim

import (
	"context"
	"encoding/json"
	"fmt"
	"io"
	mrand "math/rand"
	"net/http"
	"runtime/debug"
	"time"
	_ "unsafe"

	"dst/qm"

	apiextensionsv1 "k8s.io/apiextensions-apiserver/pkg/apis/apiextensions/v1"
	apierrors "k8s.io/apimachinery/pkg/api/errors"
	"k8s.io/apimachinery/pkg/runtime"
	"k8s.io/apimachinery/pkg/runtime/schema"
	"k8s.io/apimachinery/pkg/types"
	utilrand "k8s.io/apimachinery/pkg/util/rand"
	utilruntime "k8s.io/apimachinery/pkg/util/runtime"
	"k8s.io/client-go/discovery"
	"k8s.io/client-go/rest"
	"k8s.io/client-go/util/flowcontrol"
	"k8s.io/klog/v2"
	"sigs.k8s.io/controller-runtime/pkg/client"
	"sigs.k8s.io/controller-runtime/pkg/reconcile"

	"metacontroller/pkg/apis/metacontroller/v1alpha1"
	mcclientset "metacontroller/pkg/client/generated/clientset/internalclientset"
	mcinformers "metacontroller/pkg/client/generated/informer/externalversions"
	"metacontroller/pkg/controller/common"
	"metacontroller/pkg/controller/composite"
	"metacontroller/pkg/controller/decorator"
	dynamicclientset "metacontroller/pkg/dynamic/clientset"
	dynamicdiscovery "metacontroller/pkg/dynamic/discovery"
	dynamicinformer "metacontroller/pkg/dynamic/informer"
)

//go:linkname simMapRand runtime.simMapRand
var simMapRand uint64

//go:linkname simCheapRand runtime.simCheapRand
var simCheapRand uint64

// SetRuntimeSalt pins map iteration offsets and select tie-breaks for a run.
func SetRuntimeSalt(salt uint64) {
	simMapRand = salt*0x9E3779B97F4A7C15 + 0x5DEECE66D
	simCheapRand = salt*0xD1B54A32D192ED03 + 0x2545F4914F6CDD1D
}

type nopRecorder struct{}

func (nopRecorder) Event(runtime.Object, string, string, string)                  {}
func (nopRecorder) Eventf(runtime.Object, string, string, string, ...interface{}) {}
func (nopRecorder) AnnotatedEventf(runtime.Object, map[string]string, string, string, string, ...interface{}) {
}

// storeClient is the controller-runtime client.Client handed to the two
// Metacontroller reconcilers; they only ever call Get (stub: reads the store).
type storeClient struct {
	client.Client
	w *World
}

func (c *storeClient) Get(ctx context.Context, key client.ObjectKey, obj client.Object, opts ...client.GetOption) error {
	var res *Resource
	switch obj.(type) {
	case *v1alpha1.CompositeController:
		res = c.w.Store.Resource("metacontroller.k8s.io", "compositecontrollers")
	case *v1alpha1.DecoratorController:
		res = c.w.Store.Resource("metacontroller.k8s.io", "decoratorcontrollers")
	case *apiextensionsv1.CustomResourceDefinition:
		res = c.w.Store.Resource("apiextensions.k8s.io", "customresourcedefinitions")
	}
	if res == nil {
		return fmt.Errorf("storeClient: unsupported type %T", obj)
	}
	raw := c.w.Store.GetRaw(res, "", key.Name)
	if raw == nil {
		return apierrors.NewNotFound(schema.GroupResource{Group: res.Group, Resource: res.Plural}, key.Name)
	}
	return json.Unmarshal(raw, obj)
}

// Proc is one incarnation of the metacontroller process.
type Proc struct {
	W            *World
	Config       *rest.Config
	Resources    *dynamicdiscovery.ResourceMap
	DynClient    *dynamicclientset.Clientset
	DynInformers *dynamicinformer.SharedInformerFactory
	McClient     *mcclientset.Clientset
	McInformers  mcinformers.SharedInformerFactory
	Composite    *composite.Metacontroller
	Decorator    *decorator.Metacontroller
	reconcileCh  chan reconcileReq
	stopCh       chan struct{}
	ReconcileLog []ReconcileRec
	busy         int
	failures     map[string]int
}

type reconcileReq struct {
	kind, name string
}

// ReconcileRec is one completed Reconcile call of the driver.
type ReconcileRec struct {
	Kind, Name string
	Err        string
	Panic      string
	Step       int
	Arrival    int // the world's arrival counter when the call returned (comparable with requests and hook calls)
}

// ProcOptions configures an incarnation.
type ProcOptions struct {
	Workers      int
	SSA          bool
	FieldManager string
	Relist       time.Duration
	Discovery    time.Duration
	DefaultQPS   bool // use client-go's default client-side rate limit instead of none
}

// GlobalSetup pins the process-global state a run depends on. It is called
// once per run, outside or inside the bubble.
func GlobalSetup(w *World, salt uint64) {
	SetRuntimeSalt(salt)
	mrand.Seed(int64(salt))
	utilrand.Seed(int64(salt))
	debug.SetGCPercent(-1)
	klog.LogToStderr(false)
	klog.SetOutput(io.Discard)
	utilruntime.ReallyCrash = false
	utilruntime.ErrorHandlers = []utilruntime.ErrorHandler{
		func(_ context.Context, err error, msg string, kv ...interface{}) {
			if err != nil {
				w.ReportError(err.Error())
			} else {
				w.ReportError(msg)
			}
		},
	}
	utilruntime.PanicHandlers = []func(context.Context, interface{}){
		func(_ context.Context, r interface{}) { w.ReportPanic(fmt.Sprint(r)) },
	}
	http.DefaultTransport = &HookTransport{W: w}
	qm.SetSink(w)
	resetProcessMemo()
}

// Boot builds a fresh metacontroller process over the world's store. It must
// be called inside the bubble.
func Boot(w *World, o ProcOptions) *Proc {
	if o.Workers <= 0 {
		o.Workers = 1
	}
	if o.Relist == 0 {
		o.Relist = 30 * time.Minute
	}
	if o.Discovery == 0 {
		o.Discovery = 30 * time.Minute
	}
	cfg := &rest.Config{Host: "http://apiserver.sim", Transport: &APITransport{W: w}}
	if !o.DefaultQPS {
		cfg.RateLimiter = flowcontrol.NewFakeAlwaysRateLimiter()
	}
	p := &Proc{W: w, Config: cfg, reconcileCh: make(chan reconcileReq, 64), stopCh: make(chan struct{}), failures: map[string]int{}}
	dc := discovery.NewDiscoveryClientForConfigOrDie(cfg)
	p.Resources = dynamicdiscovery.NewResourceMap(dc)
	var err error
	p.DynClient, err = dynamicclientset.New(cfg, p.Resources)
	if err != nil {
		panic(err)
	}
	p.DynInformers = dynamicinformer.NewSharedInformerFactory(p.DynClient, o.Relist)
	p.McClient, err = mcclientset.NewForConfig(cfg)
	if err != nil {
		panic(err)
	}
	p.McInformers = mcinformers.NewSharedInformerFactory(p.McClient, o.Relist)
	ctx := common.ControllerContext{
		K8sClient:         &storeClient{w: w},
		Resources:         p.Resources,
		DynClient:         p.DynClient,
		DynInformers:      p.DynInformers,
		McInformerFactory: p.McInformers,
		McClient:          p.McClient,
		EventRecorder:     nopRecorder{},
	}
	strategy := common.ApplyStrategyDynamicApply
	if o.SSA {
		strategy = common.ApplyStrategyServerSideApply
	}
	fm := o.FieldManager
	if fm == "" {
		fm = "metacontroller"
	}
	p.Composite = composite.NewMetacontroller(ctx, p.McClient, o.Workers, &common.ApplyOptions{FieldManager: fm, Strategy: strategy})
	p.Decorator = decorator.NewMetacontroller(ctx, o.Workers)
	p.Resources.Start(o.Discovery)
	p.McInformers.Start(p.stopCh)
	go p.driver()
	return p
}

// driver plays the part of controller-runtime's manager: it calls Reconcile
// sequentially per controller kind and recovers panics (RecoverPanic defaults
// to true in controller-runtime v0.19).
func (p *Proc) driver() {
	for {
		select {
		case <-p.stopCh:
			return
		case rq := <-p.reconcileCh:
			rec := ReconcileRec{Kind: rq.kind, Name: rq.name}
			func() {
				defer func() {
					if r := recover(); r != nil {
						rec.Panic = fmt.Sprint(r)
					}
				}()
				req := reconcile.Request{NamespacedName: types.NamespacedName{Name: rq.name}}
				var err error
				if rq.kind == "composite" {
					_, err = p.Composite.Reconcile(context.Background(), req)
				} else {
					_, err = p.Decorator.Reconcile(context.Background(), req)
				}
				if err != nil {
					rec.Err = err.Error()
				}
			}()
			if rec.Err != "" || rec.Panic != "" {
				// controller-runtime requeues a failed Reconcile with per-item back-off
				key := rq.kind + "/" + rq.name
				p.failures[key]++
				d := 5 * time.Millisecond << uint(min(p.failures[key]-1, 17))
				rq := rq
				time.AfterFunc(d, func() {
					select {
					case <-p.stopCh:
					default:
						p.Reconcile(rq.kind, rq.name)
					}
				})
			} else {
				delete(p.failures, rq.kind+"/"+rq.name)
			}
			p.W.mu.Lock()
			rec.Step = p.W.step
			rec.Arrival = p.W.arrivals
			p.ReconcileLog = append(p.ReconcileLog, rec)
			p.busy--
			p.W.asyncLog = append(p.W.asyncLog, fmt.Sprintf("reconciled %s/%s err=%v panic=%v", rq.kind, rq.name, rec.Err != "", rec.Panic != ""))
			p.W.mu.Unlock()
		}
	}
}

// Reconcile queues a Reconcile call for the named controller object.
func (p *Proc) Reconcile(kind, name string) {
	p.W.mu.Lock()
	p.busy++
	p.W.mu.Unlock()
	p.reconcileCh <- reconcileReq{kind, name}
}

// ReconcileBusy reports whether queued Reconcile calls have not finished yet.
func (p *Proc) ReconcileBusy() bool {
	p.W.mu.Lock()
	defer p.W.mu.Unlock()
	return p.busy > 0
}
