package sim

import (
	"fmt"
	"time"
)

func strMapDiff(pre, post map[string]string) []string {
	var ks []string
	for k, v := range pre {
		if pv, ok := post[k]; !ok || pv != v {
			ks = append(ks, k)
		}
	}
	for k := range post {
		if _, ok := pre[k]; !ok {
			ks = append(ks, k)
		}
	}
	return ks
}

// c16Oracle: a decorator changes only labels, annotations, status and finalizer of its target.
func c16Oracle(w *World, ds *DSetup) *Violation {
	report := func(v *Violation) *Violation {
		if w.Known(v) {
			return nil
		}
		return v
	}
	cfgOf := func(name string) *DecoratorCfg {
		for _, c := range ds.Cfgs {
			if c.Name == name {
				return c
			}
		}
		return nil
	}
	isTargetRes := func(res *Resource) bool {
		for _, c := range ds.Cfgs {
			if c.ResourceRule(res) != nil {
				return true
			}
		}
		return false
	}
	isAttachmentRes := func(res *Resource) bool {
		for _, c := range ds.Cfgs {
			if c.AttachmentRule(res) != nil {
				return true
			}
		}
		return false
	}
	for _, sy := range w.Syncs("object") {
		var h *HookRec
		for _, x := range sy.Hooks {
			if x.Kind == "sync" || x.Kind == "finalize" {
				h = x
			}
		}
		if h == nil {
			// a sync without a hook call may still sync the finalizer; nothing else may be written
			for _, q := range sy.Reqs {
				if q.IsWrite() && accepted(q) && q.Res != nil && isAttachmentRes(q.Res) {
					if v := report(&Violation{Prop: "C16", Class: "attachment-written-without-hook-answer", Sig: ds.Sig, Step: q.Step, Detail: q.Short()}); v != nil {
						return v
					}
				}
			}
			continue
		}
		cfg := cfgOf(h.Controller)
		if cfg == nil {
			continue
		}
		obj := getMap(h.Req, "object")
		tres := resOf(w, obj)
		where := fmt.Sprintf("decorator %s, %s of %s %s/%s at step %d", cfg.Name, h.Kind, getStr(obj, "kind"), mstr(obj, "namespace"), mstr(obj, "name"), h.ParkStep)
		// (3) decorated only if selected by both selectors, or still carrying the finalizer
		if tres == nil || !(cfg.Selects(tres, obj) || hasFinalizer(obj, cfg.FinalizerName())) {
			if v := report(&Violation{Prop: "C16", Class: "unselected-object-decorated", Sig: ds.Sig, Step: h.ParkStep,
				Detail: fmt.Sprintf("%s: labels %v annotations %v satisfy neither the rule's selectors nor carry the finalizer", where, labelsOf(obj), annotationsOf(obj))}); v != nil {
				return v
			}
		}
		// ... judged on what the sync could have read before it wrote anything itself: an
		// object that was neither selected nor carrying the finalizer in every such
		// version is none of this decorator's business (giving it the finalizer first
		// does not make it so)
		if tres != nil {
			upto := h.ParkStep
			for _, q := range sy.Reqs {
				if q.Res == tres && q.NS == mstr(obj, "namespace") && q.Name == mstr(obj, "name") && q.IsWrite() && q.ParkStep < upto {
					upto = q.ParkStep
				}
			}
			never, versions := true, 0
			for _, ver := range w.Cache.Versions(h.Inc, tres, mstr(obj, "namespace"), mstr(obj, "name"), sy.StartStep-1, upto) {
				if ver == nil {
					never = false // (not there in some view: nothing to go by)
					continue
				}
				versions++
				vo := mustParse(ver)
				if mstr(vo, "uid") != mstr(obj, "uid") || cfg.Selects(tres, vo) || hasFinalizer(vo, cfg.FinalizerName()) {
					never = false
				}
			}
			if never && versions > 0 {
				s2 := copySig(ds.Sig)
				s2["view"] = "every-cached-version-before-the-sync-wrote"
				if v := report(&Violation{Prop: "C16", Class: "unselected-object-decorated", Sig: s2, Step: h.ParkStep,
					Detail: fmt.Sprintf("%s: in every cached version the sync could have read before its own first write the object satisfied neither the rule's selectors nor carried the finalizer", where)}); v != nil {
					return v
				}
			}
		}
		var resp Object
		if h.Code == 200 && h.Fault == "" {
			resp, _ = parse(h.RespBody)
		}
		targetWrites, targetApplied := 0, 0
		// (attachments) what the answer lists without a namespace belongs to the target's
		// namespace, whichever hook answered and whatever else the answer says: an
		// attachment is created there and nowhere else, and an attachment the answer
		// lists is not deleted (unless its strategy re-creates)
		listed := map[string]bool{}
		for _, a := range getList(resp, "attachments") {
			if ao, ok := a.(map[string]interface{}); ok {
				ns := mstr(ao, "namespace")
				if ns == "" {
					ns = mstr(obj, "namespace")
				}
				listed[getStr(ao, "kind")+"|"+ns+"|"+mstr(ao, "name")] = true
			}
		}
		for _, q := range sy.Reqs {
			if resp == nil || !q.IsWrite() || q.Res == nil || !accepted(q) || q.Arrival < h.Arrival {
				continue
			}
			rule := cfg.AttachmentRule(q.Res)
			if rule == nil {
				continue
			}
			if q.Verb == "create" && q.Res.Namespaced && mstr(obj, "namespace") != "" && q.NS != mstr(obj, "namespace") {
				if v := report(&Violation{Prop: "C16", Class: "attachment-created-outside-the-target-namespace", Sig: ds.Sig, Step: q.Step,
					Detail: fmt.Sprintf("%s: %s", where, q.Short())}); v != nil {
					return v
				}
			}
			if q.Verb == "delete" && listed[q.Res.Kind+"|"+q.NS+"|"+q.Name] && rule.Method != "Recreate" && rule.Method != "RollingRecreate" {
				w.Probe("c16:listed-attachment-deleted")
				if v := report(&Violation{Prop: "C16", Class: "listed-attachment-deleted", Sig: ds.Sig, Step: q.Step,
					Detail: fmt.Sprintf("%s: the answer lists %s %s/%s, yet %s was sent (strategy %q)", where, q.Res.Kind, q.NS, q.Name, q.Short(), rule.Method)}); v != nil {
					return v
				}
			}
		}
		for _, q := range sy.Reqs {
			if !q.IsWrite() || q.Res == nil {
				continue
			}
			if isTargetRes(q.Res) {
				if q.Arrival < h.Arrival {
					// before the hook call only the finalizer may be synced
					if accepted(q) && q.Pre != nil && q.Post != nil {
						pre, post := mustParse(q.Pre), mustParse(q.Post)
						a, b := deepCopy(pre), deepCopy(post)
						removeFinalizer(a, cfg.FinalizerName())
						removeFinalizer(b, cfg.FinalizerName())
						normalizeMeta(a)
						normalizeMeta(b)
						delete(meta(a), "resourceVersion")
						delete(meta(b), "resourceVersion")
						if jsonString(a) != jsonString(b) {
							if v := report(&Violation{Prop: "C16", Class: "target-changed-before-hook-answer", Sig: ds.Sig, Step: q.Step, Detail: where + ": " + q.Short()}); v != nil {
								return v
							}
						}
					}
					continue
				}
				if !accepted(q) || q.Pre == nil || q.Post == nil {
					continue
				}
				pre, post := mustParse(q.Pre), mustParse(q.Post)
				if resp == nil {
					if v := report(&Violation{Prop: "C16", Class: "target-written-without-valid-answer", Sig: ds.Sig, Step: q.Step, Detail: where + ": " + q.Short()}); v != nil {
						return v
					}
					continue
				}
				// (2) no request when nothing would change: judged per sync below
				targetWrites++
				if q.Applied {
					targetApplied++
				}
				// (1) only the named label/annotation keys, status and the own finalizer
				for field, get := range map[string]func(Object) map[string]string{"labels": labelsOf, "annotations": annotationsOf} {
					named := getMap(resp, field)
					for _, k := range strMapDiff(get(pre), get(post)) {
						want, isNamed := named[k]
						got, has := get(post)[k]
						ok := isNamed && ((want == nil && !has) || (want != nil && has && got == want))
						if !ok {
							if v := report(&Violation{Prop: "C16", Class: "unnamed-" + field + "-key-changed", Sig: ds.Sig, Step: q.Step,
								Detail: fmt.Sprintf("%s: %s key %q changed from %q to %q (present after: %v); the response names %v", where, field, k, get(pre)[k], got, has, jsonString(named))}); v != nil {
								return v
							}
						}
					}
				}
				if jsonString(pre["status"]) != jsonString(post["status"]) {
					rs, named := resp["status"]
					if !named || rs == nil || jsonString(post["status"]) != jsonString(rs) {
						if v := report(&Violation{Prop: "C16", Class: "status-changed-against-response", Sig: ds.Sig, Step: q.Step,
							Detail: fmt.Sprintf("%s: status changed from %s to %s, the response's status is %s", where, jsonString(pre["status"]), jsonString(post["status"]), jsonString(rs))}); v != nil {
							return v
						}
					}
				}
				a, b := deepCopy(pre), deepCopy(post)
				for _, o := range []Object{a, b} {
					removeFinalizer(o, cfg.FinalizerName())
					m := meta(o)
					delete(m, "labels")
					delete(m, "annotations")
					delete(m, "resourceVersion")
					delete(o, "status")
					normalizeMeta(o)
				}
				if jsonString(a) != jsonString(b) {
					if v := report(&Violation{Prop: "C16", Class: "target-changed-outside-allowed-fields", Sig: ds.Sig, Step: q.Step,
						Detail: fmt.Sprintf("%s: %s changed the target beyond labels, annotations, status and its own finalizer: before %s after %s", where, q.Short(), jsonString(a), jsonString(b))}); v != nil {
						return v
					}
				}
				continue
			}
			if cfg.AttachmentRule(q.Res) == nil && isAttachmentRes(q.Res) {
				if v := report(&Violation{Prop: "C16", Class: "other-decorators-attachment-kind-written", Sig: ds.Sig, Step: q.Step, Detail: where + ": " + q.Short()}); v != nil {
					return v
				}
				continue
			}
			if cfg.AttachmentRule(q.Res) == nil || !accepted(q) {
				continue
			}
			mk, mv := cfg.Marker()
			puid := mstr(obj, "uid")
			if q.Pre == nil {
				if q.Post != nil {
					post := mustParse(q.Post)
					c := controllerOf(post)
					if c == nil || c.UID != puid || annotationsOf(post)[mk] != mv {
						if v := report(&Violation{Prop: "C16", Class: "attachment-created-without-marker-or-owner", Sig: ds.Sig, Step: q.Step,
							Detail: fmt.Sprintf("%s: created %s/%s with owners %s annotations %v", where, q.NS, mstr(post, "name"), jsonString(metaRO(post)["ownerReferences"]), annotationsOf(post))}); v != nil {
							return v
						}
					}
				}
				continue
			}
			pre := mustParse(q.Pre)
			c := controllerOf(pre)
			if c == nil || c.UID != puid || annotationsOf(pre)[mk] != mv {
				if !q.Applied {
					continue
				}
				sig := copySig(ds.Sig)
				sig["verb"] = q.Verb
				sig["target"] = "never-an-attachment-of-this-decorator"
				for i := range w.Store.History {
					ev := &w.Store.History[i]
					if ev.Res == q.Res && ev.NS == q.NS && ev.Name == q.Name && ev.Step <= q.Step {
						o := mustParse(ev.Raw)
						if oc := controllerOf(o); mstr(o, "uid") == mstr(pre, "uid") && oc != nil && oc.UID == puid && annotationsOf(o)[mk] == mv {
							sig["target"] = "same-object-ownership-or-marker-changed"
						}
					}
				}
				if v := report(&Violation{Prop: "C16", Class: "foreign-attachment-written", Sig: sig, Step: q.Step,
					Detail: fmt.Sprintf("%s: %s accepted on %s %s/%s whose owners are %s and marker is %q", where, q.Method, q.Res.Kind, q.NS, q.Name, jsonString(metaRO(pre)["ownerReferences"]), annotationsOf(pre)[mk])}); v != nil {
					return v
				}
			}
		}
		if targetWrites > 0 && targetApplied == 0 {
			if v := report(&Violation{Prop: "C16", Class: "no-op-update-sent", Sig: ds.Sig, Step: sy.EndStep,
				Detail: fmt.Sprintf("%s: %d update request(s) were sent for the target although nothing changed", where, targetWrites)}); v != nil {
				return v
			}
		}
	}
	// (4) what the hook is shown: C03's oracle with the decorator shape and marker rule, per decorator
	for _, cfg := range ds.Cfgs {
		cfg := cfg
		mk, mv := cfg.Marker()
		var declared []*Resource
		for _, a := range cfg.Attachments {
			declared = append(declared, a.Res)
		}
		sub := &World{T: w.T, Store: w.Store, Cache: w.Cache, QEvents: w.QEvents, Errs: w.Errs, KnownFindings: w.KnownFindings, KnownSeen: w.KnownSeen}
		for _, r := range w.Reqs {
			sub.Reqs = append(sub.Reqs, r)
		}
		for _, h := range w.Hooks {
			if h.Controller == cfg.Name {
				sub.Hooks = append(sub.Hooks, h)
			}
		}
		shape := hookShape{"object", "attachments", "C16"}
		if v := c03Oracle(sub, ds.Sig, shape, declared, nil, func(o Object) bool { return annotationsOf(o)[mk] == mv }); v != nil {
			return v
		}
	}
	return nil
}

// C16Scenario: a decorator changes only labels, annotations, status and finalizer of its target.
func C16Scenario() *Scenario {
	return &Scenario{Prop: "C16", Init: func(w *World) {
		t := w.T
		ds := NewDecoratorSetup(w, DGenOpts{MaxDecorators: 2, PlainOwner: true, ResyncOnce: true, Keep: true})
		b := &EnvBudget{Left: 4 + t.Pick(8, "envbudget")}
		var discoveryGVs []string
		if t.Pick(4, "discovery") == 3 {
			// discovery is refreshed every 2 s and the document of a group-version the
			// attachments live in is unavailable now and then: syncs that need it fail and
			// are retried; the hook is never shown a map with a declared kind missing
			ds.Opts.Proc.Discovery = 2 * time.Second
			discoveryGVs = []string{"/v1", "kids.example.com/v1", "kids.example.com/v1beta1"}
			w.Cfg["discoveryOutages"] = "true"
		}
		cfgChanges := t.Pick(3, "cfgchanges")
		w.EnvOps = func(w *World) []EnvOp {
			var ops []EnvOp
			ops = append(ops, ds.TargetEdits(b)...)
			ops = append(ops, ds.TargetEdits(b)...)
			ops = append(ops, ds.AttachmentChaos(b)...)
			ops = append(ops, GCOps(w)...)
			if len(discoveryGVs) > 0 {
				ops = append(ops, DiscoveryOutages(w, b, discoveryGVs)...)
			}
			if b.Left > 0 && cfgChanges > 0 && w.Proc != nil && !w.Proc.ReconcileBusy() {
				// the finalize hook is added to / removed from a DecoratorController later:
				// the hosted controller restarts, targets may carry a leftover finalizer
				for _, cfg := range ds.Cfgs {
					cfg := cfg
					ops = append(ops, EnvOp{"config-toggle-finalize-hook " + cfg.Name, func(w *World) {
						b.take()
						cfgChanges--
						cfg.Finalize = !cfg.Finalize
						cfg.Ver++
						EditObject(w, ResDecoratorCtl, "", cfg.Name, "config", func(o Object) { o["spec"] = cfg.Object()["spec"] })
						w.Proc.Reconcile("decorator", cfg.Name)
						w.Probe("c16:finalize-hook-toggled")
					}})
				}
			}
			return ops
		}
		pol := lagPolicy(t)
		pol.EnvProb = 120
		w.Cfg["policy"] = pol.Name
		w.Stages = []Stage{
			{Name: "chaos", Policy: pol, Steps: 150 + 100*t.Pick(3, "len")},
			{Name: "drain", Quiet: true, CheckOnBudget: true, MaxSteps: 4000 + 4000*min(1, len(discoveryGVs)), Do: func(w *World) { b.Left = 0; cfgChanges = 0; w.DiscoveryDown = nil }, Check: func(w *World) *Violation {
				if v := c16Oracle(w, ds); v != nil {
					return v
				}
				if w.budget {
					return nil // (decorators that undo each other's work never come to rest)
				}
				return c16Applied(w, ds)
			}},
		}
	}}
}

// c16Applied: at rest, every selected live target carries what its decorators' answers name
// (a non-null value present, a null one absent). The answers are a pure function of the target.
func c16Applied(w *World, ds *DSetup) *Violation {
	for _, p := range ds.Targets {
		obj := p.Get(w)
		if obj == nil || metaRO(obj)["deletionTimestamp"] != nil {
			continue
		}
		for _, cfg := range ds.Cfgs {
			if !cfg.Selects(p.Res, obj) {
				continue
			}
			prog := ds.Progs[cfg.Name]
			if prog == nil || prog.Sync == nil {
				continue
			}
			resp := prog.Sync(Object{"object": deepCopy(obj), "attachments": Object{}})
			for field, get := range map[string]func(Object) map[string]string{"labels": labelsOf, "annotations": annotationsOf} {
				named := getMap(resp, field)
				// two decorators may name the same key: whoever wrote last wins; only keys that
				// every selecting decorator names identically are judged
				agreed := true
				for _, other := range ds.Cfgs {
					if other != cfg && other.Selects(p.Res, obj) && ds.Progs[other.Name] != nil {
						o2 := ds.Progs[other.Name].Sync(Object{"object": deepCopy(obj), "attachments": Object{}})
						if jsonString(getMap(o2, field)) != jsonString(named) {
							agreed = false
						}
					}
				}
				if !agreed {
					continue
				}
				have := get(obj)
				for _, k := range sortedKeys(named) {
					want := named[k]
					got, has := have[k]
					if (want == nil && has) || (want != nil && (!has || got != want)) {
						w.Probe("c16:named-key-not-applied")
						return &Violation{Prop: "C16", Class: "named-key-not-applied", Sig: ds.Sig,
							Detail: fmt.Sprintf("decorator %s, %s %s/%s at rest: the answer names %s %q = %s, the target has %q (present: %v)", cfg.Name, p.Res.Kind, p.NS, p.Name, field, k, jsonString(want), got, has)}
					}
				}
			}
		}
	}
	return nil
}
