package sim

import (
	"fmt"
	"strings"
)

// C09Scenario: rollout intent is persisted before acting; any crash resumes consistently.
// Reference runs record the sequence of in-sync interactions of the rollout; the
// runner then enumerates a crash (request not applied / applied with the
// response lost) and each API error kind at every position.
func C09Scenario() *Scenario {
	return &Scenario{Prop: "C09", Init: func(w *World) {
		t := w.T
		s := newRollingSetup(w, RollingOpts{MaxReplicas: 3})
		p := s.Parents[0]
		// in half of the runs one child is the same in every revision: a rollout step
		// then hands two children to the latest revision at once (the unchanged one and
		// the regular move), and an interruption between the two revision writes leaves
		// two existing children that no revision names
		if st := t.Pick(6, "static-child"); st >= 3 {
			s.TP.StaticIdx = map[int]bool{st - 3: true}
			w.Cfg["staticChild"] = fmt.Sprint(st - 3)
		}
		// in a quarter of the runs the controller has a finalize hook that keeps the
		// children (and answers finalized:false) while spec.template.hold is true, and the
		// parent is deleted in the middle of the rollout: the rollout goes on under
		// finalization, and what is recorded must stay ahead of what is done all the same
		deleteMidRollout := t.Pick(4, "deletemidrollout") == 3
		if deleteMidRollout {
			s.Cfg.Finalize = true
			s.TP.FinalizeHold = true
			EditObject(w, ResCompositeCtl, "", s.Cfg.Name, "setup", func(o Object) { o["spec"] = s.Cfg.Object()["spec"] })
			EditObject(w, p.Res, p.NS, p.Name, "setup", func(o Object) { setPath(o, true, "spec", "template", "hold") })
			w.Cfg["deletedMidRollout"] = "true"
		}
		fair := &Policy{Name: "fair+status", EnvWhenIdle: true}
		// in a third of the runs the ControllerRevision watch is slow: the frame that
		// announces a new revision reaches the cache only some tens of steps after it
		// was written, so syncs meanwhile work from a revision cache that lacks the
		// latest revision (its creation is then refused as AlreadyExists)
		if t.Pick(3, "revision-watch-lag") == 2 {
			lag := 15 + 15*t.Pick(4, "revlag")
			firstSeen := map[int64]int{}
			fair.HoldStream = func(w *World, ws *WatchStream) bool {
				if ws.Res != ResRevision {
					return false
				}
				ev := w.NextFrame(ws)
				if ev == nil || ev.Type != "ADDED" {
					return false
				}
				at, ok := firstSeen[ev.RV]
				if !ok {
					at = w.step
					firstSeen[ev.RV] = at
				}
				return w.step-at < lag
			}
			w.Cfg["revisionWatchLag"] = fmt.Sprint(lag)
		}
		// in a third of the runs somebody deletes, once, a child that an old revision
		// still records while the rollout is under way: it has to come back as that
		// revision desires it (re-created from the latest one it would be ahead of its record)
		childLoss := t.Pick(3, "child-deleted-mid-rollout") == 2
		w.Cfg["childDeletedMidRollout"] = fmt.Sprint(childLoss)
		w.EnvOps = func(w *World) []EnvOp {
			ops := s.StatusActor(true)
			po := p.Get(w)
			if !childLoss || po == nil {
				return ops
			}
			revs := ControlledBy(w.Store, ResRevision, mstr(po, "uid"))
			if len(revs) < 2 {
				return ops
			}
			rule := s.rollingRule()
			latestPatch := jsonString(makeFieldPatch(po, fieldPathsOf(s.Cfg)))
			for _, o := range revs {
				r := parseRevision(o)
				if jsonString(r.Patch) == latestPatch {
					continue
				}
				for i := int(getInt(po, "spec", "replicas")) - 1; i >= 0; i-- {
					name := fmt.Sprintf("%s-%d", p.Name, i)
					if !r.claims(claimKey(rule.Res.Group, rule.Res.Kind, name)) {
						continue
					}
					ns := ""
					if rule.Res.Namespaced {
						ns = p.NS
					}
					if w.Store.Get(rule.Res, ns, name) == nil {
						continue
					}
					ops = append(ops, EnvOp{"delete-child-of-old-revision " + name, func(w *World) {
						childLoss = false
						EditObject(w, rule.Res, ns, name, "user", func(o Object) { delete(meta(o), "finalizers") })
						w.Store.Delete(rule.Res, ns, name, DeleteOpts{}, "user")
						w.Probe("c09:child-of-old-revision-deleted-mid-rollout")
					}})
					return ops
				}
			}
			return ops
		}
		changeStep := 0
		second := t.Pick(3, "second-change") == 2
		w.OnCrash = func(w *World) *Violation { return c09AtRestart(w, s, p) }
		// the process can die between any two requests: what a restart would find is
		// judged after every kernel step, whatever fault the run injects (a refused
		// revision write followed by an accepted one is as durable as a crash)
		w.Invariants = append(w.Invariants, func(w *World) *Violation {
			v := c09AtRestart(w, s, p)
			if v != nil {
				v.Class = strings.Replace(v.Class, "-at-restart", "-in-durable-state", 1)
			}
			return v
		})
		// ... and a child is only ever changed once a ControllerRevision in the store names it
		seenReqs := 0
		w.Invariants = append(w.Invariants, func(w *World) *Violation {
			for ; seenReqs < len(w.Reqs); seenReqs++ {
				if v := c09Recorded(w, s, p, w.Reqs[seenReqs], deleteMidRollout); v != nil {
					return v
				}
			}
			return nil
		})
		budget := func(w *World) *Violation {
			return &Violation{Prop: "C09", Class: "rollout-not-resumed", Sig: c09Sig(w, s),
				Detail: fmt.Sprintf("after the injected %s the rollout started at step %d did not finish within %d steps (%d sync errors)", planName(w), changeStep, w.step, len(w.Errs))}
		}
		w.Stages = []Stage{
			{Name: "converge", Quiet: true, MaxSteps: 3000, Policy: fair},
			{Name: "rollout", Quiet: true, MaxSteps: 5000, Policy: fair, OnBudget: budget,
				Do: func(w *World) {
					changeStep = w.step
					if w.Plan != nil {
						w.Plan.Armed = true
					}
					EditObject(w, p.Res, p.NS, p.Name, "user", func(o Object) { setPath(o, "c-new", "spec", "template", "color") })
				}},
		}
		if deleteMidRollout {
			w.Stages[1].Quiet, w.Stages[1].Steps = false, 4+t.Pick(30, "deleteafter")
			w.Stages = append(w.Stages, Stage{Name: "deleted-mid-rollout", Quiet: true, MaxSteps: 5000, Policy: fair, OnBudget: budget,
				Do: func(w *World) {
					w.Store.Delete(p.Res, p.NS, p.Name, DeleteOpts{Propagation: "Background"}, "user")
					w.Probe("c09:parent-deleted-mid-rollout")
				}})
			second = false
		}
		if second {
			w.Stages = append(w.Stages, Stage{Name: "rollout2", Quiet: true, MaxSteps: 5000, Policy: fair, OnBudget: budget,
				Do: func(w *World) {
					EditObject(w, p.Res, p.NS, p.Name, "user", func(o Object) { setPath(o, "c-newer", "spec", "template", "color") })
				}})
		}
		// an injected 404 / 409 / 410 is a lie about the store which the code rightly
		// believes (a parent answered "not found" is not written to again, and nobody
		// retries): what the rollout must reach is judged after one further event for
		// the parent (DESIGN 10.3)
		w.Stages = append(w.Stages, Stage{Name: "settled", Quiet: true, MaxSteps: 5000, Policy: fair, OnBudget: budget,
			Do: func(w *World) {
				if w.Plan != nil && (w.Plan.Kind == "404" || w.Plan.Kind == "409" || w.Plan.Kind == "410") && w.Plan.Fired {
					EditObject(w, p.Res, p.NS, p.Name, "user", func(o Object) { setPath(o, fmt.Sprint(w.step), "metadata", "annotations", "nudge") })
					w.Probe("c09:nudge-after-injected-lie")
				}
			}})
		last := &w.Stages[len(w.Stages)-1]
		last.Check = func(w *World) *Violation {
			if w.Plan != nil {
				w.Plan.Armed = false
			}
			if v := c09Ordering(w, s); v != nil {
				return v
			}
			if deleteMidRollout {
				// the parent is being finalized: there is no "rollout finished" state to compare with
				return nil
			}
			if v := c08Check(w, s, p, changeStep); v != nil {
				if v.Prop == "C08" {
					v.Prop = "C09"
					v.Class = "final-state-differs:" + v.Class
					v.Sig = c09Sig(w, s)
					v.Detail = "after the injected " + planName(w) + ": " + v.Detail
				}
				return v
			}
			return nil
		}
	}}
}

func planName(w *World) string {
	if w.Plan == nil || w.Plan.Kind == "" {
		return "(no fault)"
	}
	if w.Plan.Again {
		return fmt.Sprintf("%s at interaction %d and again at the next request of that kind", w.Plan.Kind, w.Plan.Pos)
	}
	return fmt.Sprintf("%s at interaction %d", w.Plan.Kind, w.Plan.Pos)
}

func c09Sig(w *World, s *Setup) map[string]string {
	sig := map[string]string{}
	for k, v := range s.Sig {
		sig[k] = v
	}
	if w.Plan != nil && w.Plan.Kind != "" {
		sig["fault"] = w.Plan.Kind
	}
	return sig
}

// isChildContentWrite: create, delete, or an update that changes more than ownership.
func isChildContentWrite(s *Setup, q *ReqRec) bool {
	if q.Res == nil || s.Cfg.Rule(q.Res) == nil || !q.IsWrite() {
		return false
	}
	if q.Verb == "update" && q.Pre != nil {
		if body, err := parse(q.Body); err == nil && sameExceptOwnership(mustParse(q.Pre), withStatusOf(body, mustParse(q.Pre))) {
			return false
		}
	}
	return true
}

func withStatusOf(body, pre Object) Object {
	b := deepCopy(body)
	if st, ok := pre["status"]; ok {
		b["status"] = st
	} else {
		delete(b, "status")
	}
	// server-managed metadata the client echoes back
	for _, f := range []string{"generation", "creationTimestamp", "uid"} {
		if v, ok := metaRO(pre)[f]; ok {
			meta(b)[f] = v
		}
	}
	return b
}

// c09Ordering: in every sync all ControllerRevision writes are accepted before any
// child is created, deleted or has its content updated; a failed one stops the sync.
func c09Ordering(w *World, s *Setup) *Violation {
	for _, sy := range w.Syncs("parent") {
		firstChild := -1
		for i, q := range sy.Reqs {
			if isChildContentWrite(s, q) {
				firstChild = i
				break
			}
		}
		failedRev := -1
		for i, q := range sy.Reqs {
			if q.Res == ResRevision && q.IsWrite() {
				if firstChild >= 0 && i > firstChild {
					return &Violation{Prop: "C09", Class: "revision-written-after-child", Sig: c09Sig(w, s), Step: q.Step,
						Detail: fmt.Sprintf("sync started at step %d: %s was sent after the child write %s", sy.StartStep, q.Short(), sy.Reqs[firstChild].Short())}
				}
				if !accepted(q) && failedRev < 0 {
					failedRev = i
				}
			}
		}
		if failedRev >= 0 {
			for i, q := range sy.Reqs {
				if i > failedRev && isChildContentWrite(s, q) {
					return &Violation{Prop: "C09", Class: "child-touched-after-failed-revision-write", Sig: c09Sig(w, s), Step: q.Step,
						Detail: fmt.Sprintf("sync started at step %d: %s failed, yet %s followed", sy.StartStep, sy.Reqs[failedRev].Short(), q.Short())}
				}
			}
		}
	}
	return nil
}

// c09AtRestart judges the durable state a restarted metacontroller would find.
func c09AtRestart(w *World, s *Setup, p ParentRef) *Violation {
	po := p.Get(w)
	if po == nil {
		return nil
	}
	rule := s.rollingRule()
	paths := fieldPathsOf(s.Cfg)
	var revs []*revInfo
	for _, o := range ControlledBy(w.Store, ResRevision, mstr(po, "uid")) {
		revs = append(revs, parseRevision(o))
	}
	latestPatch := jsonString(makeFieldPatch(po, paths))
	count := map[string][]string{}
	for _, r := range revs {
		for _, c := range r.Claims {
			count[c] = append(count[c], r.Name)
		}
	}
	for c, rs := range count {
		if len(rs) > 1 {
			return &Violation{Prop: "C09", Class: "child-in-two-revisions-at-restart", Sig: c09Sig(w, s),
				Detail: fmt.Sprintf("after the %s the store lists %s under %d ControllerRevisions %v", planName(w), c, len(rs), rs)}
		}
	}
	// never ahead: a child recorded under an old revision must not already hold the
	// latest desired state where that differs from the old revision's
	n := int(getInt(po, "spec", "replicas"))
	for _, r := range revs {
		if jsonString(r.Patch) == latestPatch {
			continue
		}
		oldParent := applyFieldPaths(po, r.Patch, paths)
		for i := 0; i < n; i++ {
			name := fmt.Sprintf("%s-%d", p.Name, i)
			key := claimKey(rule.Res.Group, rule.Res.Kind, name)
			if !r.claims(key) {
				continue
			}
			ns := ""
			if rule.Res.Namespaced {
				ns = p.NS
			}
			got := w.Store.Get(rule.Res, ns, name)
			if got == nil {
				continue
			}
			dLatest := s.TP.desiredChild(po, rule.Res, name, "", i)
			dOld := s.TP.desiredChild(oldParent, rule.Res, name, "", i)
			if jsonString(dLatest) != jsonString(dOld) && contains(got, dLatest) && !contains(got, dOld) {
				return &Violation{Prop: "C09", Class: "child-ahead-of-its-revision", Sig: c09Sig(w, s),
					Detail: fmt.Sprintf("after the %s %s already holds the latest desired state but is still recorded under the old revision %s", planName(w), key, r.Name)}
			}
		}
	}
	return nil
}

// c09Recorded: "rollout intent is persisted before acting" for one request. An existing
// child of the rolling kind that the parent still desires is updated or deleted (for
// re-creation) only while some ControllerRevision of the parent in the store claims it:
// the sync that changes it had all its revision writes accepted first, and those record
// every desired rolling child under exactly one revision. Judged at the moment the
// request is applied (the invariant runs after every kernel step).
func c09Recorded(w *World, s *Setup, p ParentRef, q *ReqRec, finalizing bool) *Violation {
	rule := s.rollingRule()
	if finalizing || q.Sync < 0 || q.Res != rule.Res || !q.Applied || q.Pre == nil || q.Sub != "" {
		return nil
	}
	if q.Verb != "update" && q.Verb != "patch" && q.Verb != "delete" {
		return nil
	}
	if !isChildContentWrite(s, q) {
		return nil
	}
	po := p.Get(w)
	if po == nil || getPath(po, "metadata", "deletionTimestamp") != nil {
		return nil
	}
	pre := mustParse(q.Pre)
	if c := controllerOf(pre); c == nil || c.UID != mstr(po, "uid") {
		return nil
	}
	n := int(getInt(po, "spec", "replicas"))
	desired := false
	for i := 0; i < n; i++ {
		if q.Name == fmt.Sprintf("%s-%d", p.Name, i) {
			desired = true
		}
	}
	if !desired {
		return nil
	}
	key := claimKey(rule.Res.Group, rule.Res.Kind, q.Name)
	var names []string
	for _, o := range ControlledBy(w.Store, ResRevision, mstr(po, "uid")) {
		r := parseRevision(o)
		names = append(names, r.Name)
		if r.claims(key) {
			return nil
		}
	}
	w.Probe("c09:child-write-judged-against-records")
	return &Violation{Prop: "C09", Class: "child-changed-without-a-revision-record", Sig: c09Sig(w, s), Step: q.Step,
		Detail: fmt.Sprintf("after the %s: %s changed the child while none of the parent's ControllerRevisions in the store %v lists %s", planName(w), q.Short(), names, key)}
}
