package sim

import (
	"reflect"
	"strings"
	"sync"
	"time"
	"unsafe"
)

// pendingBackoff reads, by reflection, the per-item failure counts of the rate
// limiters behind the work queues of every hosted controller and returns the
// longest back-off delay that may still be pending: min(maxDelay, baseDelay *
// 2^(failures-1)) over all items that have failed since their last successful
// sync. Base and cap are read from the limiter itself, nothing is mirrored. ok is
// false when the structures are not what this function expects (the caller then
// falls back to a conservative bound).
func (w *World) pendingBackoff() (d time.Duration, ok bool) {
	p := w.Proc
	if p == nil {
		return 0, false
	}
	defer func() {
		if r := recover(); r != nil {
			d, ok = 0, false
		}
	}()
	found := false
	visitQueue := func(q reflect.Value) {
		// q: the controller's `queue` field (an interface value)
		rl := deref(deref(q).FieldByName("rateLimiter"))
		var limiters []reflect.Value
		if ls := rl.FieldByName("limiters"); ls.IsValid() && ls.Kind() == reflect.Slice {
			for i := 0; i < ls.Len(); i++ {
				limiters = append(limiters, deref(ls.Index(i)))
			}
		} else {
			limiters = append(limiters, rl)
		}
		for _, l := range limiters {
			if !strings.Contains(l.Type().Name(), "ItemExponentialFailureRateLimiter") {
				continue
			}
			failures, base, max := l.FieldByName("failures"), l.FieldByName("baseDelay"), l.FieldByName("maxDelay")
			if !failures.IsValid() || !base.IsValid() || !max.IsValid() || failures.Kind() != reflect.Map {
				panic("unexpected limiter layout")
			}
			found = true
			// the workers update this map under the limiter's own lock: take it, too
			if lk := l.FieldByName("failuresLock"); lk.IsValid() && lk.CanAddr() {
				mu := (*sync.Mutex)(unsafe.Pointer(lk.UnsafeAddr()))
				mu.Lock()
				defer mu.Unlock()
			} else {
				panic("limiter lock not reachable")
			}
			it := failures.MapRange()
			for it.Next() {
				n := it.Value().Int()
				if n <= 0 {
					continue
				}
				b := time.Duration(base.Int())
				for i := int64(1); i < n && b < time.Duration(max.Int()); i++ {
					b *= 2
				}
				if b > time.Duration(max.Int()) {
					b = time.Duration(max.Int())
				}
				if b > d {
					d = b
				}
			}
		}
	}
	for _, root := range []struct {
		v     interface{}
		field string
	}{{p.Composite, "parentControllers"}, {p.Decorator, "decoratorControllers"}} {
		rv := reflect.ValueOf(root.v)
		if !rv.IsValid() || rv.IsNil() {
			continue
		}
		m := rv.Elem().FieldByName(root.field)
		if !m.IsValid() || m.Kind() != reflect.Map {
			return 0, false
		}
		if m.Len() == 0 {
			found = true // nothing hosted: nothing pending
		}
		it := m.MapRange()
		for it.Next() {
			q := deref(it.Value()).FieldByName("queue")
			if !q.IsValid() {
				return 0, false
			}
			visitQueue(q)
		}
	}
	return d, found
}

// deref follows interfaces and pointers down to the value they hold.
func deref(v reflect.Value) reflect.Value {
	for v.IsValid() && (v.Kind() == reflect.Interface || v.Kind() == reflect.Ptr) {
		if v.IsNil() {
			panic("nil on the way")
		}
		v = v.Elem()
	}
	return v
}

// connected reports whether every live shared informer of the process has an
// open watch stream. A reflector whose LIST or WATCH failed reconnects after its
// own back-off; until then the caches are behind and the world is not at rest.
func (w *World) connected() bool {
	if w.ConnectedHook != nil && !w.ConnectedHook() {
		return false
	}
	p := w.Proc
	if p == nil || p.DynInformers == nil {
		return true
	}
	idx, ok := dynIndexers(p.DynInformers)
	if !ok {
		return true
	}
	open := map[string]bool{}
	for _, ws := range w.OpenStreams() {
		if ws.Res != nil {
			open[ws.Res.Plural+"."+ws.Res.APIVersion()] = true
		}
	}
	for k := range idx {
		if !open[k] {
			return false
		}
	}
	return true
}
