package sim

import (
	"fmt"
)

// hostedParentUIDs returns every UID an object of the parent resource ever had.
func hostedParentUIDs(w *World, parentRes ...*Resource) map[string]bool {
	out := map[string]bool{}
	for i := range w.Store.History {
		ev := &w.Store.History[i]
		for _, pr := range parentRes {
			if ev.Res == pr && ev.Type == "ADDED" {
				out[mstr(mustParse(ev.Raw), "uid")] = true
			}
		}
	}
	return out
}

func sameExceptOwnership(pre, post Object) bool {
	a, b := deepCopy(pre), deepCopy(post)
	for _, o := range []Object{a, b} {
		m := meta(o)
		delete(m, "ownerReferences")
		delete(m, "resourceVersion")
	}
	return jsonString(a) == jsonString(b)
}

func accepted(r *ReqRec) bool {
	if !r.Answered {
		return false
	}
	if r.Fault == "lost" {
		return r.Applied
	}
	return r.Fault == "" && r.Code >= 200 && r.Code < 300
}

// c02Oracle judges every write metacontroller got accepted on a non-parent object.
func c02Oracle(w *World, s *Setup, from int) *Violation {
	report := func(v *Violation) *Violation {
		if w.Known(v) {
			return nil
		}
		return v
	}
	hosted := hostedParentUIDs(w, s.Cfg.Parent)
	syncParent := w.SyncParents("parent")
	isManaged := func(res *Resource) bool {
		return res != nil && (s.Cfg.Rule(res) != nil || res == ResRevision)
	}
	for _, r := range w.Reqs[from:] {
		if !r.IsWrite() || !isManaged(r.Res) {
			continue
		}
		target := fmt.Sprintf("%s %s/%s", r.Res.Kind, r.NS, r.Name)
		// every DELETE that is sent must be conditioned on the observed UID
		if r.Verb == "delete" && r.Fault != "cancelled" && r.Fault != "crashed" {
			opts := parseDeleteOpts(r.Body)
			if opts.UID == "" {
				if v := report(&Violation{Prop: "C02", Class: "delete-without-uid-precondition", Sig: s.Sig, Step: r.Step,
					Detail: fmt.Sprintf("DELETE %s sent without preconditions.uid (body %s)", target, r.Body)}); v != nil {
					return v
				}
			}
			if r.Res != ResRevision && opts.Propagation != "Background" {
				if v := report(&Violation{Prop: "C02", Class: "delete-without-background-propagation", Sig: s.Sig, Step: r.Step,
					Detail: fmt.Sprintf("DELETE %s sent with propagationPolicy %q", target, opts.Propagation)}); v != nil {
					return v
				}
			}
		}
		if !accepted(r) {
			continue
		}
		var wantUID string // the parent this sync was about, when known
		if p, ok := syncParent[syncID{r.Inc, r.Root, r.Sync}]; ok && r.Sync >= 0 {
			wantUID = mstr(p, "uid")
		}
		controls := func(o Object) bool {
			c := controllerOf(o)
			if c == nil {
				return false
			}
			if wantUID != "" {
				return c.UID == wantUID
			}
			return hosted[c.UID]
		}
		if r.Pre == nil {
			// creation (POST, or an apply patch that creates)
			if r.Post == nil {
				continue
			}
			post := mustParse(r.Post)
			if !controls(post) {
				class := "created-without-controller-ref"
				if v := report(&Violation{Prop: "C02", Class: class, Sig: s.Sig, Step: r.Step,
					Detail: fmt.Sprintf("%s %s created %s without a controller owner reference to the parent (ownerReferences %s)", r.Method, r.Path, target, jsonString(metaRO(post)["ownerReferences"]))}); v != nil {
					return v
				}
			}
			continue
		}
		pre := mustParse(r.Pre)
		if controls(pre) {
			continue
		}
		// not controlled by the parent: only the adoption edit is allowed
		if r.Verb == "update" && r.Post != nil && controllerOf(pre) == nil {
			post := mustParse(r.Post)
			if controls(post) && sameExceptOwnership(pre, post) {
				continue
			}
		}
		if !r.Applied {
			continue // a request the server short-circuited changed nothing
		}
		who := "an orphan"
		if c := controllerOf(pre); c != nil {
			who = fmt.Sprintf("controlled by %s %s (uid %s)", c.Kind, c.Name, c.UID)
		}
		sig := map[string]string{}
		for k, v := range s.Sig {
			sig[k] = v
		}
		sig["verb"] = r.Verb
		// was this very object (same uid) controlled by the parent at some earlier time?
		sig["target"] = "never-controlled"
		for i := range w.Store.History {
			ev := &w.Store.History[i]
			if ev.Res == r.Res && ev.NS == r.NS && ev.Name == r.Name && ev.Step <= r.Step {
				o := mustParse(ev.Raw)
				if mstr(o, "uid") == mstr(pre, "uid") && controls(o) {
					sig["target"] = "same-object-ownership-changed"
				}
			}
		}
		if v := report(&Violation{Prop: "C02", Class: "write-to-uncontrolled-object", Sig: sig, Step: r.Step,
			Detail: fmt.Sprintf("%s %s accepted on %s, which is %s, not controlled by the syncing parent (uid %q)", r.Method, r.Path, target, who, wantUID)}); v != nil {
			return v
		}
	}
	return nil
}

// C02Scenario: only objects the parent controls are ever modified or deleted.
func C02Scenario() *Scenario {
	return &Scenario{Prop: "C02", Init: func(w *World) {
		t := w.T
		s := NewCompositeSetup(w, GenOpts{PlainOwner: true, SameNames: true, AllowCluster: true, AllowSSA: true, MaxWorkers: 3, MaxParents: 2, LookAlikes: true, AvoidKnown: true, Resync: true})
		// second parent with an overlapping selector
		if len(s.Parents) > 1 && t.Pick(2, "overlap") == 1 {
			p0, p1 := s.Parents[0], s.Parents[1]
			if p0.NS == p1.NS {
				EditObject(w, p1.Res, p1.NS, p1.Name, "user", func(o Object) {
					setPath(o, Object{"matchLabels": Object{"app": p0.Name}}, "spec", "selector")
				})
				w.Cfg["overlap"] = "true"
			}
		}
		b := &EnvBudget{Left: 4 + t.Pick(8, "envbudget")}
		w.EnvOps = func(w *World) []EnvOp {
			var ops []EnvOp
			ops = append(ops, s.ChildChaos(b)...)
			ops = append(ops, s.OrphanOps(b)...)
			ops = append(ops, s.ParentEdits(b)...)
			ops = append(ops, GCOps(w)...)
			return ops
		}
		pol := &Policy{Name: "adversarial", Shuffle: true, HoldWatch: 150 * t.Pick(5, "hold"), EnvProb: 120, AdvanceProb: 20}
		pol.ForceFault = s.ReplaceUnderWrite(40)
		w.Cfg["policy"] = fmt.Sprintf("adversarial hold=%d", pol.HoldWatch)
		checked := 0
		check := func(w *World) *Violation {
			v := c02Oracle(w, s, 0)
			checked = len(w.Reqs)
			return v
		}
		_ = checked
		w.Stages = []Stage{
			{Name: "chaos", Policy: pol, Steps: 200 + 100*t.Pick(3, "len")},
			{Name: "drain", Quiet: true, CheckOnBudget: true, MaxSteps: 3000, Do: func(w *World) { b.Left = 0 }, Check: check},
		}
	}}
}
