package sim

import (
	"fmt"
	"strconv"
	"strings"
)

// c10Ctl abstracts over the two controller kinds for the finalizer oracle.
type c10Ctl struct {
	kind       string // composite | decorator
	name       string
	parentKey  string
	childKey   string
	finalizer  string
	parentRes  []*Resource
	childRes   []*Resource
	selects    func(o Object) bool // the controller's selector on parents
	finalizeOn map[string]bool     // hook URL version ("v1") -> finalize hook configured
	sig        map[string]string
	updateCfg  func(w *World, finalize bool)
	composite  *Setup // composite only: needed to tell which parent revisions are live
}

func hasGCFinalizer(o Object) bool {
	return hasFinalizer(o, "foregroundDeletion") || hasFinalizer(o, "orphan")
}

// c10Oracle checks the finalizer life cycle over the whole history.
func c10Oracle(w *World, c *c10Ctl) *Violation {
	report := func(v *Violation) *Violation {
		if w.Known(v) {
			return nil
		}
		return v
	}
	isParentRes := func(r *Resource) bool {
		for _, x := range c.parentRes {
			if x == r {
				return true
			}
		}
		return false
	}
	isChildRes := func(r *Resource) bool {
		for _, x := range c.childRes {
			if x == r {
				return true
			}
		}
		return false
	}
	// the parent as the store had it just before resource version rv
	parentBefore := func(res *Resource, ns, name string, rv int64) Object {
		var last []byte
		for i := range w.Store.History {
			ev := &w.Store.History[i]
			if ev.RV >= rv {
				break
			}
			if ev.Res == res && ev.NS == ns && ev.Name == name {
				if ev.Type == "DELETED" {
					last = nil
				} else {
					last = ev.Raw
				}
			}
		}
		if last == nil {
			return nil
		}
		return mustParse(last)
	}
	var rolls map[syncID]*rollSync
	for _, sy := range w.Syncs(c.parentKey) {
		if !strings.HasSuffix(sy.Queue, "-"+c.name) {
			continue
		}
		// which controller instance ran this sync: identified by the hook URL version; syncs
		// without a hook call are attributed to the instance of the closest hook call
		ver := ""
		for _, h := range sy.Hooks {
			ver = h.Ver
		}
		var parent Object
		var hk *HookRec
		for _, h := range sy.Hooks {
			if h.Kind == "sync" || h.Kind == "finalize" {
				hk = h
				parent = getMap(h.Req, c.parentKey)
			}
		}
		finalizeOn, knownVer := c.finalizeOn[ver]
		where := fmt.Sprintf("%s %s, sync started at step %d", c.kind, c.name, sy.StartStep)
		// (c) which hook, and the finalizing flag
		for _, h := range sy.Hooks {
			if h.Kind != "sync" && h.Kind != "finalize" {
				continue
			}
			p := getMap(h.Req, c.parentKey)
			deleting := metaRO(p)["deletionTimestamp"] != nil
			unmatched := !c.selects(p)
			fin, _ := h.Req["finalizing"].(bool)
			on := c.finalizeOn[h.Ver]
			wantFinalize := on && (deleting || unmatched)
			if (h.Kind == "finalize") != wantFinalize || fin != wantFinalize {
				if v := report(&Violation{Prop: "C10", Class: "wrong-hook-or-finalizing-flag", Sig: c.sig, Step: h.ParkStep,
					Detail: fmt.Sprintf("%s: %s hook called with finalizing=%v for a parent with deleting=%v unmatched=%v (finalize hook configured: %v)", where, h.Kind, fin, deleting, unmatched, on)}); v != nil {
					return v
				}
			}
		}
		// finalizer edits in this sync
		var finalizeAnswers []bool
		// with a rolling strategy there is one call per parent revision; revisions that
		// lose their last child in this sync are pruned and their answer does not count
		ignored := map[*HookRec]bool{}
		if c.composite != nil && c.composite.AnyRolling() {
			if rolls == nil {
				rolls = map[syncID]*rollSync{}
				for _, rs := range buildRollSyncs(w, c.composite) {
					rolls[rs.sy.ID] = rs
				}
			}
			if rs := rolls[sy.ID]; rs != nil {
				paths := fieldPathsOf(c.composite.Cfg)
				for key, h := range rs.calls {
					if h == rs.latest {
						continue
					}
					live := false
					for _, r := range rs.after {
						if len(r.Claims) > 0 && jsonString(applyFieldPaths(rs.parent, r.Patch, paths)) == key {
							live = true
						}
					}
					if !live {
						ignored[h] = true
					}
				}
			}
		}
		for _, h := range sy.Hooks {
			if ignored[h] {
				continue
			}
			if h.Kind == "finalize" && h.Code == 200 && h.Fault == "" {
				if r, err := parse(h.RespBody); err == nil {
					f, _ := r["finalized"].(bool)
					finalizeAnswers = append(finalizeAnswers, f)
				}
			} else if h.Kind == "sync" || h.Kind == "finalize" {
				finalizeAnswers = append(finalizeAnswers, false)
			}
		}
		failedFinalizerAdd := -1
		finalizerAdded := false
		for i, q := range sy.Reqs {
			if !isParentRes(q.Res) || q.Verb != "update" || q.Sub != "" || q.Pre == nil {
				continue
			}
			body, err := parse(q.Body)
			if err != nil {
				continue
			}
			pre := mustParse(q.Pre)
			// what the request changes is judged against the version it was built from (the
			// body's resourceVersion): an update from a stale copy that still lists the
			// finalizer does not add it, and the server refuses it as a conflict anyway
			base := pre
			if rv, err := strconv.ParseInt(mstr(body, "resourceVersion"), 10, 64); err == nil {
				if raw := w.Store.VersionAt(q.Res, q.NS, q.Name, rv); raw != nil {
					base = mustParse(raw)
				}
			}
			had, wants := hasFinalizer(base, c.finalizer), hasFinalizer(body, c.finalizer)
			if !had && wants {
				// (b) never added to a parent that is already being deleted
				allDeleting := true
				for _, ver := range w.Cache.Versions(sy.ID.Inc, q.Res, q.NS, q.Name, sy.StartStep-1, q.ParkStep) {
					if ver != nil && metaRO(mustParse(ver))["deletionTimestamp"] == nil {
						allDeleting = false
					}
				}
				if allDeleting || metaRO(pre)["deletionTimestamp"] != nil && accepted(q) {
					if v := report(&Violation{Prop: "C10", Class: "finalizer-added-to-deleting-parent", Sig: c.sig, Step: q.Step,
						Detail: fmt.Sprintf("%s: %s adds the finalizer although the parent was being deleted in every view of this sync", where, q.Short())}); v != nil {
						return v
					}
				}
				if accepted(q) {
					finalizerAdded = true
				} else {
					failedFinalizerAdd = i // the last failed attempt (conflicts are retried by the client)
				}
			}
			if had && !wants && accepted(q) {
				// (d) removed only after an answer finalized:true from every live revision (or no finalize hook)
				allTrue := len(finalizeAnswers) > 0
				for _, f := range finalizeAnswers {
					if !f {
						allTrue = false
					}
				}
				early := false
				for _, h := range sy.Hooks {
					if (h.Kind == "sync" || h.Kind == "finalize") && h.Arrival > q.Arrival {
						early = true
					}
				}
				if knownVer && finalizeOn && (!allTrue || early) {
					if v := report(&Violation{Prop: "C10", Class: "finalizer-removed-without-finalized-answer", Sig: c.sig, Step: q.Step,
						Detail: fmt.Sprintf("%s: the finalizer was removed (%s) although the finalize answers of this sync were %v", where, q.Short(), finalizeAnswers)}); v != nil {
						return v
					}
				}
				if knownVer && finalizeOn {
					w.Probe("c10:finalizer-removed-after-finalized")
				} else {
					w.Probe("c10:leftover-finalizer-removed")
				}
			}
		}
		// (g) a failed finalizer add stops the sync before any child is touched
		if failedFinalizerAdd >= 0 && !finalizerAdded {
			w.Probe("c10:finalizer-add-failed")
			for i, q := range sy.Reqs {
				if i > failedFinalizerAdd && q.IsWrite() && isChildRes(q.Res) {
					if v := report(&Violation{Prop: "C10", Class: "child-written-after-failed-finalizer-add", Sig: c.sig, Step: q.Step,
						Detail: fmt.Sprintf("%s: %s failed, yet %s followed", where, sy.Reqs[failedFinalizerAdd].Short(), q.Short())}); v != nil {
						return v
					}
				}
			}
		}
		// (f) a parent pending deletion that cannot be finalized has no child written
		if parent != nil && knownVer && metaRO(parent)["deletionTimestamp"] != nil &&
			(!finalizeOn || !hasFinalizer(parent, c.finalizer) || hasGCFinalizer(parent)) {
			w.Probe("c10:deleting-parent-not-finalizable")
			for _, q := range sy.Reqs {
				if q.IsWrite() && isChildRes(q.Res) && q.Arrival > hk.Arrival {
					if v := report(&Violation{Prop: "C10", Class: "child-written-for-unfinalizable-deleting-parent", Sig: c.sig, Step: q.Step,
						Detail: fmt.Sprintf("%s: parent is pending deletion (finalize hook: %v, own finalizer: %v, GC finalizer: %v), yet %s was sent", where, finalizeOn, hasFinalizer(parent, c.finalizer), hasGCFinalizer(parent), q.Short())}); v != nil {
						return v
					}
				}
			}
		}
		// once the finalizer has been taken off a parent that is pending deletion, nothing
		// is created, updated or deleted for it any more (the parent may be gone the next
		// moment, and nobody would retry a write that fails)
		removalAt := -1
		for _, q := range sy.Reqs {
			if removalAt < 0 && isParentRes(q.Res) && q.Verb == "update" && q.Sub == "" && accepted(q) && q.Pre != nil {
				pre := mustParse(q.Pre)
				gone := q.Post == nil
				if !gone {
					gone = !hasFinalizer(mustParse(q.Post), c.finalizer)
				}
				if hasFinalizer(pre, c.finalizer) && gone && metaRO(pre)["deletionTimestamp"] != nil {
					removalAt = q.Arrival
				}
				continue
			}
			if removalAt >= 0 && q.Arrival > removalAt && q.IsWrite() && isChildRes(q.Res) && q.Fault != "cancelled" {
				sig := copySig(c.sig)
				sig["kind"] = c.kind
				if v := report(&Violation{Prop: "C10", Class: "child-written-after-finalizer-removed", Sig: sig, Step: q.Step,
					Detail: fmt.Sprintf("%s: %s was sent after the finalizer had been removed from the parent, which is pending deletion", where, q.Short())}); v != nil {
					return v
				}
			}
		}
		// (a) with a finalize hook, the finalizer is on the parent before any child is created for it
		if knownVer && finalizeOn {
			for _, q := range sy.Reqs {
				if q.Pre != nil || q.Post == nil || !accepted(q) || !isChildRes(q.Res) {
					continue
				}
				post := mustParse(q.Post)
				co := controllerOf(post)
				if co == nil {
					continue
				}
				var rv int64
				fmt.Sscan(mstr(post, "resourceVersion"), &rv)
				for _, pr := range c.parentRes {
					if pr.Kind != co.Kind {
						continue
					}
					pns := ""
					if pr.Namespaced {
						pns = mstr(post, "namespace")
					}
					live := parentBefore(pr, pns, co.Name, rv)
					// as far as the sync could know: a version of the parent it could have read -
					// from the cache, or in an answer it got - carried the finalizer. (The store may
					// be ahead: the finalizer was taken off after a finalized:true answer and the
					// event has not arrived yet. No controller working from a cache can exclude that.)
					sawFinalizer := false
					for _, ver := range w.Cache.Versions(sy.ID.Inc, pr, pns, co.Name, sy.StartStep-1, q.ParkStep) {
						if ver != nil {
							if vo := mustParse(ver); mstr(vo, "uid") == co.UID && hasFinalizer(vo, c.finalizer) {
								sawFinalizer = true
							}
						}
					}
					// an answer the sync got about the parent is newer than anything cached: the
					// latest one decides (a sync that took the finalizer off itself knows it is gone)
					var lastAnswer *ReqRec
					for _, q2 := range sy.Reqs {
						if q2.Arrival < q.Arrival && q2.Res == pr && q2.NS == pns && q2.Name == co.Name && q2.Post != nil && q2.Code == 200 && q2.Fault == "" {
							if lastAnswer == nil || q2.Arrival > lastAnswer.Arrival {
								lastAnswer = q2
							}
						}
					}
					if lastAnswer != nil {
						vo := mustParse(lastAnswer.Post)
						sawFinalizer = mstr(vo, "uid") == co.UID && hasFinalizer(vo, c.finalizer)
					}
					if live != nil && mstr(live, "uid") == co.UID && !hasFinalizer(live, c.finalizer) && sawFinalizer {
						w.Probe("c10:child-created-on-a-stale-view-of-the-finalizer")
					}
					if live != nil && mstr(live, "uid") == co.UID && !hasFinalizer(live, c.finalizer) && !sawFinalizer {
						sig := copySig(c.sig)
						sig["finalizedAnswerListsChildren"] = "false"
						// how the parent came to be without the finalizer: it never had it, or it
						// lost it - and then, was the parent (as stored at that moment) still one
						// the controller manages and not being deleted?
						sig["finalizerLost"] = "never-had-it"
						var prevVer Object
						for i := range w.Store.History {
							ev := &w.Store.History[i]
							if ev.RV >= rv {
								break
							}
							if ev.Res != pr || ev.NS != pns || ev.Name != co.Name {
								continue
							}
							if ev.Type == "DELETED" {
								prevVer = nil
								continue
							}
							cur := mustParse(ev.Raw)
							if mstr(cur, "uid") == co.UID && prevVer != nil && hasFinalizer(prevVer, c.finalizer) && !hasFinalizer(cur, c.finalizer) {
								if metaRO(prevVer)["deletionTimestamp"] == nil && c.selects(prevVer) {
									sig["finalizerLost"] = "removed-from-live-managed-parent"
								} else {
									sig["finalizerLost"] = "removed-while-unmanaged-or-deleting"
								}
							}
							prevVer = cur
						}
						for _, h := range sy.Hooks {
							if h.Kind == "finalize" && h.Code == 200 && h.Arrival < q.Arrival {
								if r, err := parse(h.RespBody); err == nil {
									if f, _ := r["finalized"].(bool); f && len(getList(r, c.childKey)) > 0 {
										sig["finalizedAnswerListsChildren"] = "true"
									}
								}
							}
						}
						if v := report(&Violation{Prop: "C10", Class: "child-created-before-finalizer", Sig: sig, Step: q.Step,
							Detail: fmt.Sprintf("%s: %s %s/%s was created for parent %s which does not carry the finalizer %s", where, q.Res.Kind, mstr(post, "namespace"), mstr(post, "name"), co.Name, c.finalizer)}); v != nil {
							return v
						}
					}
					w.Probe("c10:child-created-with-finalizer-in-place")
				}
			}
		}
	}
	return nil
}

// C10Scenario: finalizer added first, honoured on deletion, removed only when finalized.
func C10Scenario() *Scenario {
	return &Scenario{Prop: "C10", Init: func(w *World) {
		t := w.T
		var ctl *c10Ctl
		var envOps func(b *EnvBudget) []EnvOp
		var parents []ParentRef
		var scripted []Stage
		b := &EnvBudget{Left: 4 + t.Pick(8, "envbudget")}
		if t.Pick(3, "ckind") == 2 {
			ds := NewDecoratorSetup(w, DGenOpts{MaxDecorators: 1, Finalize: 1, AtOnce: true})
			cfg := ds.Cfgs[0]
			parents = ds.Targets
			ctl = &c10Ctl{kind: "decorator", name: cfg.Name, parentKey: "object", childKey: "attachments", finalizer: cfg.FinalizerName(),
				parentRes: []*Resource{cfg.Resources[0].Res}, childRes: []*Resource{cfg.Attachments[0].Res},
				selects:    func(o Object) bool { return cfg.Selects(cfg.Resources[0].Res, o) },
				finalizeOn: map[string]bool{"v1": true}, sig: ds.Sig}
			ctl.updateCfg = func(w *World, finalize bool) {
				cfg.Finalize = finalize
				cfg.Ver++
				ctl.finalizeOn[fmt.Sprintf("v%d", cfg.Ver)] = finalize
				EditObject(w, ResDecoratorCtl, "", cfg.Name, "config", func(o Object) { o["spec"] = cfg.Object()["spec"] })
				w.Proc.Reconcile("decorator", cfg.Name)
			}
			envOps = func(b *EnvBudget) []EnvOp {
				ops := ds.TargetEdits(b)
				ops = append(ops, ds.AttachmentChaos(b)...)
				return ops
			}
		} else {
			s := NewCompositeSetup(w, GenOpts{AllowCluster: true, MaxWorkers: 2, MaxParents: 2, Finalize: 1, AvoidKnown: true, Methods: []string{"InPlace", "Recreate", "", "RollingInPlace"}})
			cfg := s.Cfg
			s.TP.Teardown = t.Pick(2, "teardown") == 1
			s.TP.FinalizeAtOnce = !s.TP.Teardown && t.Pick(3, "atonce") == 2
			if t.Pick(3, "holdvariant") == 2 {
				// finalize answers depend on a revisioned field; a rollout that can stall keeps old revisions alive
				s.TP.FinalizeHold = true
				w.Cfg["variant"] = "finalize-hold"
				for i := range cfg.Children {
					if isRolling(cfg.Children[i].Method) {
						cfg.Children[i].StatusChecks = []Object{{"type": "Ready", "status": "True"}}
					}
				}
				for _, p := range s.Parents {
					if t.Pick(2, "hold") == 1 {
						EditObject(w, p.Res, p.NS, p.Name, "setup", func(o Object) { setPath(o, true, "spec", "template", "hold") })
					}
				}
			}
			cfg.LabelSelector = Object{"matchLabels": Object{"managed": "yes"}}
			EditObject(w, ResCompositeCtl, "", cfg.Name, "setup", func(o Object) { o["spec"] = cfg.Object()["spec"] })
			for _, p := range s.Parents {
				if t.Pick(4, "unmanaged") != 3 {
					EditObject(w, p.Res, p.NS, p.Name, "setup", func(o Object) { setPath(o, "yes", "metadata", "labels", "managed") })
				}
			}
			if t.Pick(4, "rollingfinalize") == 3 && cfg.Parent.Namespaced {
				// several live revisions whose finalize answers disagree: a rollout that stalls
				// (children never become Ready) with `hold` flipped in between, then deletion
				w.Cfg["variant"] = "rolling-finalize"
				s.TP.FinalizeHold = true
				cfg.Children[0].Method = "RollingInPlace"
				cfg.Children[0].StatusChecks = []Object{{"type": "Ready", "status": "True"}}
				EditObject(w, ResCompositeCtl, "", cfg.Name, "setup", func(o Object) { o["spec"] = cfg.Object()["spec"] })
				p := s.Parents[0]
				EditObject(w, p.Res, p.NS, p.Name, "setup", func(o Object) {
					setPath(o, true, "spec", "template", "hold")
					setPath(o, "yes", "metadata", "labels", "managed")
					if getInt(o, "spec", "replicas") < 2 {
						setPath(o, int64(2), "spec", "replicas")
					}
				})
				scripted = []Stage{
					{Name: "converge", Quiet: true, MaxSteps: 3000},
					{Name: "flip-hold", Quiet: true, MaxSteps: 3000, Do: func(w *World) {
						EditObject(w, p.Res, p.NS, p.Name, "user", func(o Object) { setPath(o, false, "spec", "template", "hold") })
					}},
					{Name: "delete-or-unmatch", Quiet: true, MaxSteps: 3000, Do: func(w *World) {
						if w.T.Pick(2, "how") == 1 {
							w.Store.Delete(p.Res, p.NS, p.Name, DeleteOpts{Propagation: "Background"}, "user")
						} else {
							EditObject(w, p.Res, p.NS, p.Name, "user", func(o Object) { delete(getMap(o, "metadata", "labels"), "managed") })
						}
					}},
				}
			}
			parents = s.Parents
			ctl = &c10Ctl{kind: "composite", name: cfg.Name, parentKey: "parent", childKey: "children", finalizer: cfg.FinalizerName(),
				parentRes: []*Resource{cfg.Parent}, childRes: s.ChildKinds(),
				selects:    func(o Object) bool { return selectorMatches(cfg.LabelSelector, labelsOf(o)) },
				finalizeOn: map[string]bool{"v1": true}, sig: s.Sig, composite: s}
			ctl.updateCfg = func(w *World, finalize bool) {
				cfg.Finalize = finalize
				cfg.Ver++
				ctl.finalizeOn[fmt.Sprintf("v%d", cfg.Ver)] = finalize
				EditObject(w, ResCompositeCtl, "", cfg.Name, "config", func(o Object) { o["spec"] = cfg.Object()["spec"] })
				w.Proc.Reconcile("composite", cfg.Name)
			}
			envOps = func(b *EnvBudget) []EnvOp {
				ops := s.ParentLifecycle(b)
				ops = append(ops, s.ParentLifecycle(b)...)
				ops = append(ops, s.ParentEdits(b)...)
				ops = append(ops, s.ChildChaos(b)...)
				for _, p := range s.Parents {
					p := p
					if b.Left > 0 && p.Get(w) != nil && s.TP.FinalizeHold {
						ops = append(ops, EnvOp{"toggle-hold " + p.Name, func(w *World) {
							b.take()
							EditObject(w, p.Res, p.NS, p.Name, "user", func(o Object) {
								h, _ := getPath(o, "spec", "template", "hold").(bool)
								setPath(o, !h, "spec", "template", "hold")
							})
						}})
					}
					if b.Left > 0 && p.Get(w) != nil {
						ops = append(ops, EnvOp{"toggle-managed " + p.Name, func(w *World) {
							b.take()
							EditObject(w, p.Res, p.NS, p.Name, "user", func(o Object) {
								if labelsOf(o)["managed"] == "yes" {
									delete(getMap(o, "metadata", "labels"), "managed")
								} else {
									setPath(o, "yes", "metadata", "labels", "managed")
								}
							})
						}})
					}
				}
				return ops
			}
		}
		ctl.sig = copySig(ctl.sig)
		ctl.sig["kind"] = ctl.kind
		cfgChanges := 1 + t.Pick(2, "cfgchanges")
		w.EnvOps = func(w *World) []EnvOp {
			ops := envOps(b)
			ops = append(ops, GCOps(w)...)
			if b.Left > 0 && cfgChanges > 0 && w.Proc != nil && !w.Proc.ReconcileBusy() {
				ops = append(ops, EnvOp{"config-toggle-finalize-hook", func(w *World) {
					b.take()
					cfgChanges--
					on := false
					for _, v := range ctl.finalizeOn {
						on = v
					}
					_ = on
					last := ctl.finalizeOn[fmt.Sprintf("v%d", len(ctl.finalizeOn))]
					ctl.updateCfg(w, !last)
				}})
			}
			return ops
		}
		pol := &Policy{Name: "lifecycle", Shuffle: t.Pick(2, "shuffle") == 1, HoldWatch: 100 * t.Pick(4, "hold"), EnvProb: 120, AdvanceProb: 20,
			APIFault: 40 * t.Pick(3, "faultrate"), APIFaults: []string{"409", "500", "neterr", "lost"},
			FaultFilter: func(r *ReqRec) bool {
				// failures of the finalizer add/remove requests: writes and reads on the parent inside a sync
				if r.Sync < 0 {
					return false
				}
				p, e := w.Store.route(r.Path)
				if e != nil || p.Res == nil {
					return false
				}
				for _, pr := range ctl.parentRes {
					if pr == p.Res && p.Sub == "" {
						return true
					}
				}
				return false
			}}
		if t.Pick(4, "conflictstorm") == 3 {
			// another writer keeps touching one parent: every update of it inside a sync
			// is refused as a conflict, for as many attempts in a row as drawn here (more
			// than any one retry loop makes)
			storm := map[string]int{}
			limit := 4 + t.Pick(6, "stormlen")
			victim := parents[t.Pick(len(parents), "stormvictim")]
			pol.ForceFault = func(r *ReqRec) string {
				if r.Sync < 0 || r.Verb != "update" || r.Sub != "" || r.Res != victim.Res || r.NS != victim.NS || r.Name != victim.Name {
					return ""
				}
				if storm[r.Name] >= limit {
					return ""
				}
				storm[r.Name]++
				w.Probe("c10:conflict-storm-409")
				return "409"
			}
			w.Cfg["conflictStorm"] = fmt.Sprint(limit)
		}
		w.Cfg["policy"] = fmt.Sprintf("hold=%d fault=%d", pol.HoldWatch, pol.APIFault)
		w.Cfg["ckind"] = ctl.kind
		w.Stages = append(scripted,
			Stage{Name: "chaos", Policy: pol, Steps: 200 + 100*t.Pick(3, "len")},
			Stage{Name: "drain", Quiet: true, MaxSteps: 4000, Policy: &Policy{Name: "fair+gc", EnvWhenIdle: true}, Do: func(w *World) { b.Left = 0; cfgChanges = 0 },
				Check: func(w *World) *Violation {
					if v := c10Oracle(w, ctl); v != nil {
						return v
					}
					// at quiescence: without a finalize hook no leftover finalizer remains
					cur := ctl.finalizeOn[fmt.Sprintf("v%d", len(ctl.finalizeOn))]
					for _, p := range parents {
						po := p.Get(w)
						if po == nil {
							continue
						}
						if !cur && hasFinalizer(po, ctl.finalizer) {
							return &Violation{Prop: "C10", Class: "leftover-finalizer-not-removed", Sig: ctl.sig,
								Detail: fmt.Sprintf("%s %s: no finalize hook is configured any more, yet at quiescence %s %s/%s still carries %s (deleting: %v)", ctl.kind, ctl.name, p.Res.Kind, p.NS, p.Name, ctl.finalizer, metaRO(po)["deletionTimestamp"] != nil)}
						}
						if cur && metaRO(po)["deletionTimestamp"] == nil && ctl.selects(po) && !hasFinalizer(po, ctl.finalizer) {
							return &Violation{Prop: "C10", Class: "finalizer-never-added", Sig: ctl.sig,
								Detail: fmt.Sprintf("%s %s: a finalize hook is configured, yet at quiescence the live, selected %s %s/%s does not carry %s", ctl.kind, ctl.name, p.Res.Kind, p.NS, p.Name, ctl.finalizer)}
						}
					}
					return nil
				}})
		_ = parents
	}}
}
