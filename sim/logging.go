package sim

import (
	"github.com/go-logr/logr"
	"github.com/go-logr/logr/funcr"

	"metacontroller/pkg/logging"
)

// SetLogVerbosity installs metacontroller's process-wide logger for one run:
// either the zero logger (everything disabled, what a run had before this
// existed) or one that is enabled at every verbosity and formats its arguments
// but throws the text away.
func SetLogVerbosity(verbose bool) {
	if !verbose {
		logging.Logger = logr.Logger{}
		return
	}
	logging.Logger = funcr.New(func(prefix, args string) {}, funcr.Options{Verbosity: 10})
}
