package sim

import (
	"bufio"
	"bytes"
	"context"
	"io"
	"net"
	"net/http"
	"strconv"
	"time"
)

// PipeTransport is a genuine *http.Transport whose connections are in-memory
// pipes to a one-request HTTP responder that hands the request to the hook seam
// (HookTransport). It is used where the code under test is the HTTP client
// itself (C19): timeouts, header/body phases and connection errors are then
// those of net/http, on the simulated clock. Code that clones
// http.DefaultTransport keeps dialling through it.
//
// Calls made through it are not attributed to syncs (the responder runs in a
// goroutine of its own), so whole-system scenarios keep HookTransport.
func PipeTransport(w *World) *http.Transport {
	ht := &HookTransport{W: w}
	return &http.Transport{
		DisableKeepAlives: true,
		DialContext: func(ctx context.Context, network, addr string) (net.Conn, error) {
			c, s := net.Pipe()
			go servePipe(ht, s)
			return c, nil
		},
	}
}

// slowBodyHeader (answer header, never sent on): seconds to wait between the
// response head and the body.
const slowBodyHeader = "X-Sim-Slow-Body"

// cutBodyHeader (answer header, never sent on): the connection is dropped after
// half of the body.
const cutBodyHeader = "X-Sim-Cut-Body"

func servePipe(ht *HookTransport, conn net.Conn) {
	defer conn.Close()
	req, err := http.ReadRequest(bufio.NewReader(conn))
	if err != nil {
		return
	}
	body, _ := io.ReadAll(req.Body)
	req.Body = io.NopCloser(bytes.NewReader(body))
	req.URL.Scheme, req.URL.Host = "http", req.Host
	// the client hanging up (its timeout) cancels the call: nothing more is sent on
	// this connection, so a read returns only when it is closed
	ctx, cancel := context.WithCancel(context.Background())
	defer cancel()
	go func() {
		var b [1]byte
		conn.Read(b[:])
		cancel()
	}()
	resp, err := ht.RoundTrip(req.WithContext(ctx))
	if err != nil {
		return // refused / reset: the client sees the connection close without an answer
	}
	slow := 0
	if v := resp.Header.Get(slowBodyHeader); v != "" {
		slow, _ = strconv.Atoi(v)
		resp.Header.Del(slowBodyHeader)
	}
	cut := resp.Header.Get(cutBodyHeader) != ""
	resp.Header.Del(cutBodyHeader)
	var buf bytes.Buffer
	resp.Write(&buf)
	raw := buf.Bytes()
	if i := bytes.Index(raw, []byte("\r\n\r\n")); cut && i >= 0 && len(raw) > i+8 {
		conn.Write(raw[:i+4+(len(raw)-i-4)/2])
		return // the deferred Close drops the connection in the middle of the body
	}
	if i := bytes.Index(raw, []byte("\r\n\r\n")); slow > 0 && i >= 0 {
		if _, err := conn.Write(raw[:i+4]); err != nil {
			return
		}
		time.Sleep(time.Duration(slow) * time.Second)
		conn.Write(raw[i+4:])
		return
	}
	conn.Write(raw)
}
