package sim

// Scenarios maps a property id to its scenario constructor.
var Scenarios map[string]func() *Scenario

func init() {
	Scenarios = map[string]func() *Scenario{
		"C01": C01Scenario,
		"C02": C02Scenario,
		"C03": C03Scenario,
		"C04": C04Scenario,
		"C06": C06Scenario,
		"C07": C07Scenario,
		"C08": C08Scenario,
		"C09": C09Scenario,
		"C10": C10Scenario,
		"C11": C11Scenario,
		"C12": C12Scenario,
		"C13": C13Scenario,
		"C14": C14Scenario,
		"C15": C15Scenario,
		"C16": C16Scenario,
		"C17": C17Scenario,
		"C18": C18Scenario,
		"C19": C19Scenario,
		"C20": C20Scenario,
	}
}
