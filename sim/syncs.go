package sim

import "sort"

// SyncRec is everything one sync of one work-queue item did, reconstructed from
// the queue events (get/done on the worker goroutine) and the two transports.
type SyncRec struct {
	ID         syncID
	Queue      string
	StartStep  int
	EndStep    int // 0 = never finished (crash / still running)
	StartSeq   int
	EndSeq     int
	Reqs       []*ReqRec
	Hooks      []*HookRec
	Errs       []ErrRec
	Retried    bool    // the item was re-added rate-limited by this sync
	Parent     Object  // parent/object of the first hook request, if any
	StartTime  float64 // simulated seconds since incarnation start
	EndTime    float64
	ParentKey  string
	FinishedOK bool
}

// Syncs reconstructs all syncs, ordered by start.
func (w *World) Syncs(parentKey string) []*SyncRec {
	idx := map[syncID]*SyncRec{}
	var order []*SyncRec
	seq := map[[2]int]int{} // (inc,gid) -> next seq
	cur := map[[2]int]*SyncRec{}
	for _, q := range w.QEvents {
		k := [2]int{q.Inc, q.Gid}
		switch q.Kind {
		case "get":
			s := &SyncRec{ID: syncID{q.Inc, q.Gid, seq[k]}, Queue: q.Queue, StartStep: q.Step, StartSeq: q.Seq, StartTime: q.Time.Seconds(), ParentKey: parentKey}
			seq[k]++
			idx[s.ID] = s
			cur[k] = s
			order = append(order, s)
		case "done":
			if s := cur[k]; s != nil {
				s.EndStep = q.Step
				s.EndSeq = q.Seq
				s.EndTime = q.Time.Seconds()
				delete(cur, k)
			}
		case "retry":
			if s := cur[k]; s != nil {
				s.Retried = true
			}
		}
	}
	for _, r := range w.Reqs {
		if r.Sync >= 0 {
			if s := idx[syncID{r.Inc, r.Root, r.Sync}]; s != nil {
				s.Reqs = append(s.Reqs, r)
			}
		}
	}
	for _, h := range w.Hooks {
		if h.Sync >= 0 {
			if s := idx[syncID{h.Inc, h.Root, h.Sync}]; s != nil {
				s.Hooks = append(s.Hooks, h)
				if s.Parent == nil && h.Req != nil {
					s.Parent = getMap(h.Req, parentKey)
				}
			}
		}
	}
	for _, s := range order {
		sort.SliceStable(s.Reqs, func(i, j int) bool { return s.Reqs[i].Arrival < s.Reqs[j].Arrival })
		sort.SliceStable(s.Hooks, func(i, j int) bool { return s.Hooks[i].Arrival < s.Hooks[j].Arrival })
	}
	// errors: HandleError is called by the worker right after the failed sync, before Done
	for _, e := range w.Errs {
		var best *SyncRec
		for _, s := range order {
			if s.ID.Inc == e.Inc && s.ID.Root == e.Gid && s.StartSeq < e.Seq && (s.EndSeq == 0 || s.EndSeq > e.Seq) {
				best = s
			}
		}
		if best != nil {
			best.Errs = append(best.Errs, e)
		}
	}
	return order
}

// SyncOf returns the sync a request belongs to, or nil.
func syncOf(syncs []*SyncRec, inc, root, seq int) *SyncRec {
	if seq < 0 {
		return nil
	}
	for _, s := range syncs {
		if s.ID.Inc == inc && s.ID.Root == root && s.ID.Sync == seq {
			return s
		}
	}
	return nil
}
