package sim

import (
	"encoding/json"
	"fmt"
	"sort"
	"strings"
	"time"
)

// jsonPaths lists every path (as a slice of keys / indices) of a JSON value.
func jsonPaths(v interface{}, prefix []interface{}, out *[][]interface{}) {
	*out = append(*out, append([]interface{}{}, prefix...))
	switch x := v.(type) {
	case map[string]interface{}:
		for _, k := range sortedKeys(x) {
			jsonPaths(x[k], append(prefix, k), out)
		}
	case []interface{}:
		for i, e := range x {
			jsonPaths(e, append(prefix, i), out)
		}
	}
}

func setAt(root interface{}, path []interface{}, val interface{}, del bool) interface{} {
	if len(path) == 0 {
		return val
	}
	switch x := root.(type) {
	case map[string]interface{}:
		k := path[0].(string)
		if len(path) == 1 && del {
			delete(x, k)
			return x
		}
		x[k] = setAt(x[k], path[1:], val, del)
		return x
	case []interface{}:
		i := path[0].(int)
		if i < len(x) {
			if len(path) == 1 && del {
				return append(x[:i], x[i+1:]...)
			}
			x[i] = setAt(x[i], path[1:], val, del)
		}
		return x
	}
	return root
}

var hostileValues = []interface{}{
	nil, true, int64(0), int64(-1), 1e308, 1.5, int64(1) << 53, "str", "", []interface{}{}, Object{},
	[]interface{}{nil}, Object{"a": nil}, []interface{}{int64(1), "x"}, Object{"metadata": nil},
}

// mutateResponse applies one grammar mutation to a valid response. It returns the new
// body, a class name and whether the result is a rejection by construction.
func mutateResponse(t *Tape, valid Object, childrenKey string) (body []byte, code int, class string, rejected bool) {
	code = 200
	switch t.Pick(10, "mutation") {
	case 0: // another status code
		codes := []int{201, 204, 301, 400, 404, 418, 500, 503}
		code = codes[t.Pick(len(codes), "code")]
		return canon(valid), code, fmt.Sprintf("status-%d", code), true
	case 1: // truncation
		b := canon(valid)
		n := 1 + t.Pick(len(b)-1, "cut")
		return b[:n], 200, "truncated", !json.Valid(b[:n])
	case 2: // empty / non-JSON bodies
		bodies := [][]byte{{}, []byte("null"), []byte("[]"), []byte("\"x\""), []byte("<html>"), []byte("{\"children\": [}"), {0xff, 0xfe, 0x00}, []byte("42")}
		b := bodies[t.Pick(len(bodies), "junk")]
		return b, 200, "junk-body", !json.Valid(b)
	case 3: // byte flip
		b := append([]byte{}, canon(valid)...)
		i := t.Pick(len(b), "pos")
		b[i] ^= byte(1 << uint(t.Pick(8, "bit")))
		return b, 200, "byte-flip", !json.Valid(b)
	case 4: // null / scalar entries in the children list
		v := deepCopy(valid)
		l := getList(v, childrenKey)
		bad := []interface{}{nil, int64(7), "child", []interface{}{}, Object{}, Object{"kind": "Widget"}, Object{"apiVersion": "v1"}, Object{"metadata": Object{"name": "x"}}}
		e := bad[t.Pick(len(bad), "badchild")]
		pos := t.Pick(len(l)+1, "at")
		nl := append(append(append([]interface{}{}, l[:pos]...), e), l[pos:]...)
		v[childrenKey] = nl
		return canon(v), 200, "bad-child-entry", false
	case 5: // status missing / null / wrong type
		v := deepCopy(valid)
		alts := []interface{}{nil, "DELETE", []interface{}{}, "ok", int64(3), Object{"conditions": nil}, Object{"conditions": []interface{}{nil}}, Object{"conditions": "x"}, Object{"conditions": []interface{}{Object{"type": int64(1)}}}, Object{"observedGeneration": "x"}}
		a := alts[t.Pick(len(alts), "status")]
		if a == "DELETE" {
			delete(v, "status")
		} else {
			v["status"] = a
		}
		return canon(v), 200, "hostile-status", false
	case 6: // labels / metadata of a child with wrong types
		v := deepCopy(valid)
		l := getList(v, childrenKey)
		if len(l) == 0 {
			return canon(v), 200, "valid", false
		}
		c, _ := l[t.Pick(len(l), "child")].(map[string]interface{})
		alts := []func(){
			func() { setPath(c, Object{"app": int64(5)}, "metadata", "labels") },
			func() { setPath(c, []interface{}{"a"}, "metadata", "labels") },
			func() { c["metadata"] = nil },
			func() { c["metadata"] = "meta" },
			func() { setPath(c, int64(7), "metadata", "name") },
			func() { setPath(c, nil, "metadata", "name") },
			func() { setPath(c, Object{"x": Object{}}, "metadata", "annotations") },
			func() { setPath(c, "yes", "metadata", "ownerReferences") },
			func() { setPath(c, []interface{}{nil}, "metadata", "ownerReferences") },
			func() { setPath(c, []interface{}{int64(1)}, "metadata", "finalizers") },
			func() { delete(c, "kind") },
			func() { delete(c, "apiVersion") },
			func() { c["apiVersion"] = "a/b/c" },
			func() { c["kind"] = int64(3) },
		}
		i := t.Pick(len(alts), "metamut")
		alts[i]()
		return canon(v), 200, "hostile-child-metadata", i <= 1 && childrenKey == "children"
	case 7: // numbers and flags
		v := deepCopy(valid)
		alts := []func(){
			func() { v["resyncAfterSeconds"] = -5.0 },
			func() { v["resyncAfterSeconds"] = 1e300 },
			func() { v["resyncAfterSeconds"] = "soon" },
			func() { v["finalized"] = "yes" },
			func() { v["finalized"] = nil },
			func() { v["resyncAfterSeconds"] = 0.0001 },
			func() { v["unknownField"] = Object{"x": int64(1)} },
			func() { v["labels"] = Object{"a": int64(1)}; v["annotations"] = []interface{}{} },
			func() { v["labels"] = nil; v["annotations"] = nil; v["attachments"] = nil; v["children"] = nil },
		}
		alts[t.Pick(len(alts), "nummut")]()
		return canon(v), 200, "hostile-scalars", false
	default: // any path replaced by any JSON type, or deleted
		v := deepCopy(valid)
		var paths [][]interface{}
		jsonPaths(v, nil, &paths)
		if len(paths) <= 1 {
			return canon(v), 200, "valid", false
		}
		p := paths[1+t.Pick(len(paths)-1, "path")]
		if t.Pick(6, "delete") == 5 {
			nv := setAt(v, p, nil, true)
			return canon(nv.(map[string]interface{})), 200, "field-deleted", false
		}
		val := hostileValues[t.Pick(len(hostileValues), "value")]
		nv := setAt(v, p, val, false)
		m, ok := nv.(map[string]interface{})
		if !ok {
			return canon(v), 200, "valid", false
		}
		var ps []string
		for _, x := range p {
			ps = append(ps, fmt.Sprint(x))
		}
		_ = strings.Join(ps, ".")
		return canon(m), 200, "field-replaced", false
	}
}

// mutateCustomize applies one grammar mutation to a valid customize answer.
func mutateCustomize(t *Tape, valid Object) (body []byte, code int, class string, rejected bool) {
	code = 200
	switch t.Pick(7, "cmutation") {
	case 0:
		codes := []int{201, 204, 400, 404, 500, 503}
		code = codes[t.Pick(len(codes), "code")]
		return canon(valid), code, fmt.Sprintf("customize-status-%d", code), true
	case 1:
		b := canon(valid)
		n := 1 + t.Pick(len(b)-1, "cut")
		return b[:n], 200, "customize-truncated", !json.Valid(b[:n])
	case 2:
		bodies := [][]byte{{}, []byte("null"), []byte("[]"), []byte("\"x\""), []byte("<html>"), []byte("{\"relatedResources\": [}"), {0xff, 0xfe, 0x00}, []byte("42"), []byte("{}"), []byte("{\"relatedResources\":null}")}
		b := bodies[t.Pick(len(bodies), "junk")]
		return b, 200, "customize-junk-body", !json.Valid(b)
	case 3: // null / scalar / incomplete rules
		v := deepCopy(valid)
		l := getList(v, "relatedResources")
		bad := []interface{}{nil, int64(7), "rule", []interface{}{}, Object{}, Object{"apiVersion": "v1"}, Object{"resource": "configmaps"},
			Object{"apiVersion": "v1", "resource": "nosuchthings"}, Object{"apiVersion": "a/b/c", "resource": "configmaps"},
			Object{"apiVersion": "v1", "resource": "configmaps", "labelSelector": nil, "namespace": nil, "names": nil}}
		e := bad[t.Pick(len(bad), "badrule")]
		pos := t.Pick(len(l)+1, "at")
		nl := append(append(append([]interface{}{}, l[:pos]...), e), l[pos:]...)
		v["relatedResources"] = nl
		return canon(v), 200, "customize-bad-rule-entry", false
	case 4: // wrong types inside a rule
		v := deepCopy(valid)
		l := getList(v, "relatedResources")
		if len(l) == 0 {
			return canon(v), 200, "valid", false
		}
		r, _ := l[t.Pick(len(l), "rule")].(map[string]interface{})
		alts := []func(){
			func() { r["labelSelector"] = "all" },
			func() { r["labelSelector"] = Object{"matchLabels": Object{"a": int64(1)}} },
			func() { r["labelSelector"] = Object{"matchExpressions": []interface{}{nil}} },
			func() {
				r["labelSelector"] = Object{"matchExpressions": []interface{}{Object{"key": "a", "operator": "Near", "values": nil}}}
			},
			func() { r["names"] = "r0" },
			func() { r["names"] = []interface{}{nil, int64(1)} },
			func() { r["namespace"] = int64(5) },
			func() { r["apiVersion"] = nil },
			func() { r["resource"] = []interface{}{} },
			func() { delete(r, "apiVersion") },
			func() { delete(r, "resource") },
		}
		alts[t.Pick(len(alts), "rulemut")]()
		return canon(v), 200, "customize-hostile-rule", false
	default:
		v := deepCopy(valid)
		var paths [][]interface{}
		jsonPaths(v, nil, &paths)
		if len(paths) <= 1 {
			return canon(v), 200, "valid", false
		}
		p := paths[1+t.Pick(len(paths)-1, "path")]
		if t.Pick(6, "delete") == 5 {
			nv := setAt(v, p, nil, true)
			return canon(nv.(map[string]interface{})), 200, "customize-field-deleted", false
		}
		val := hostileValues[t.Pick(len(hostileValues), "value")]
		nv := setAt(v, p, val, false)
		m, ok := nv.(map[string]interface{})
		if !ok {
			return canon(v), 200, "valid", false
		}
		return canon(m), 200, "customize-field-replaced", false
	}
}

// C13Scenario: no hook response, however malformed, can crash metacontroller or cause writes.
func C13Scenario() *Scenario {
	return &Scenario{Prop: "C13", Init: func(w *World) {
		t := w.T
		decorator := t.Pick(4, "ckind") == 3
		hostile := true
		type mutRec struct {
			class    string
			rejected bool
		}
		muts := map[*HookRec]mutRec{}
		var sig map[string]string
		var progs Programs
		var childKey string
		var finalCheck func(w *World, pokeStep int) *Violation
		var pokeAll func(w *World)
		var isChild func(res *Resource) bool
		var parentKey string
		var envOps func(b *EnvBudget) []EnvOp
		var liveParents func(w *World) []ParentRef
		var discoveryGVs []string
		if decorator {
			ds := NewDecoratorSetup(w, DGenOpts{MaxDecorators: 1, MaxWorkers: 2})
			sig, progs, childKey, parentKey = copySig(ds.Sig), ds.Progs, "attachments", "object"
			finalCheck = func(w *World, pokeStep int) *Violation { return c12DecoratorFinal(w, ds, pokeStep) }
			pokeAll = func(w *World) {
				for _, p := range ds.Targets {
					EditObject(w, p.Res, p.NS, p.Name, "user", func(o Object) { setPath(o, fmt.Sprint(w.step), "metadata", "annotations", "poke") })
				}
			}
			isChild = func(res *Resource) bool { return ds.Cfgs[0].AttachmentRule(res) != nil }
			envOps = func(b *EnvBudget) []EnvOp { return ds.TargetEdits(b) }
			liveParents = func(w *World) []ParentRef {
				var out []ParentRef
				for _, p := range ds.Targets {
					if po := p.Get(w); po != nil && ds.Cfgs[0].Selects(p.Res, po) {
						out = append(out, p)
					}
				}
				return out
			}
		} else {
			cs := NewCompositeSetup(w, GenOpts{MaxWorkers: 2, MaxParents: 2, AvoidKnown: true, Programs: true})
			if t.Pick(3, "customize") == 2 {
				// a customize hook whose answers are corrupted, too
				cs.Cfg.Customize = true
				EditObject(w, ResCompositeCtl, "", cs.Cfg.Name, "setup", func(o Object) { o["spec"] = cs.Cfg.Object()["spec"] })
				cs.Progs["cc"].Customize = CustomizeFromSpec("parent")
				populateRelated(w)
				for _, p := range cs.Parents {
					rules := drawRelatedRules(t, p.NS, -1)
					EditObject(w, p.Res, p.NS, p.Name, "setup", func(o Object) { setPath(o, rules, "spec", "related") })
				}
				w.InlineUnsyncedHooks = true
				cs.Sig["customize"] = "true"
				w.Cfg["customize"] = "true"
			}
			if t.Pick(3, "discovery") == 2 {
				// discovery is refreshed every 2 s, and the document of one group-version is
				// unavailable now and then: the resource map loses and regains it while syncs
				// that need it are under way (they must fail and be retried, not crash)
				cs.Opts.Proc.Discovery = 2 * time.Second
				discoveryGVs = []string{"/v1", "kids.example.com/v1"}
				w.Cfg["discoveryOutages"] = "true"
			}
			sig, progs, childKey, parentKey = copySig(cs.Sig), cs.Progs, "children", "parent"
			finalCheck = func(w *World, pokeStep int) *Violation { return c01Check(w, cs.Cfg, cs.Opts, cs.Parents, pokeStep, 0) }
			pokeAll = func(w *World) {
				for _, p := range cs.Parents {
					EditObject(w, p.Res, p.NS, p.Name, "user", func(o Object) { setPath(o, fmt.Sprint(w.step), "metadata", "annotations", "poke") })
				}
			}
			isChild = func(res *Resource) bool { return cs.Cfg.Rule(res) != nil }
			envOps = func(b *EnvBudget) []EnvOp {
				ops := cs.ParentEdits(b)
				for _, op := range cs.ParentLifecycle(b) {
					if strings.HasPrefix(op.Name, "delete-parent-Background") {
						ops = append(ops, op)
					}
				}
				return ops
			}
			liveParents = func(w *World) []ParentRef {
				var out []ParentRef
				for _, p := range cs.Parents {
					if p.Get(w) != nil {
						out = append(out, p)
					}
				}
				return out
			}
		}
		sig["kind"] = map[bool]string{true: "decorator", false: "composite"}[decorator]
		w.Cfg["ckind"] = sig["kind"]
		rate := 300 + 200*t.Pick(3, "hostilerate")
		lastClass := ""
		for name, p := range progs {
			p := p
			_ = name
			p.Raw = func(w *World, h *HookRec) *HookAnswer {
				if hostile && h.Req != nil && h.Kind == "customize" && h.Sync >= 0 && p.Customize != nil && w.T.Chance(rate/2, "hostile?") {
					// (customize calls made from informer handlers are answered inline, on
					// their own goroutine: those stay valid, the tape belongs to the kernel)
					body, code, class, rejected := mutateCustomize(w.T, p.Customize(deepCopy(h.Req)))
					muts[h] = mutRec{class, rejected}
					lastClass = class
					w.FaultsFired["hostile:"+class]++
					return &HookAnswer{Code: code, Body: body}
				}
				if !hostile || h.Req == nil || (h.Kind != "sync" && h.Kind != "finalize") || !w.T.Chance(rate, "hostile?") {
					return nil
				}
				f := p.Sync
				if h.Kind == "finalize" {
					f = p.Finalize
				}
				if f == nil {
					return nil
				}
				valid := f(deepCopy(h.Req))
				body, code, class, rejected := mutateResponse(w.T, valid, childKey)
				muts[h] = mutRec{class, rejected}
				lastClass = class
				w.FaultsFired["hostile:"+class]++
				return &HookAnswer{Code: code, Body: body}
			}
		}
		w.PanicProp = "C13"
		w.PanicSig = func(w *World) map[string]string {
			s2 := copySig(sig)
			s2["mutation"] = lastClass
			// what was hostile about the answer, as far as a finding needs to know
			return s2
		}
		b := &EnvBudget{Left: 3 + t.Pick(5, "envbudget")}
		w.EnvOps = func(w *World) []EnvOp {
			ops := append(envOps(b), GCOps(w)...)
			if len(discoveryGVs) > 0 {
				ops = append(ops, DiscoveryOutages(w, b, discoveryGVs)...)
			}
			return ops
		}
		pol := &Policy{Name: "hostile", Shuffle: t.Pick(2, "shuffle") == 1, EnvProb: 80, AdvanceProb: 40}
		pokeStep := 0
		fair := &Policy{Name: "fair+gc", EnvWhenIdle: true}
		budget := func(w *World) *Violation {
			return &Violation{Prop: "C13", Class: "not-quiet-after-hostile-answers", Sig: sig,
				Detail: fmt.Sprintf("after the hook went back to valid answers the world did not become quiet within %d steps (%d sync errors)", w.step, len(w.Errs))}
		}
		w.Stages = []Stage{
			{Name: "hostile", Policy: pol, Steps: 150 + 100*t.Pick(3, "len")},
			{Name: "recover", Quiet: true, MaxSteps: 4000 + 20000*min(1, len(discoveryGVs)), Policy: fair, OnBudget: budget, Do: func(w *World) {
				hostile = false
				b.Left = 0
				w.DiscoveryDown = nil
				w.EnvOps = func(w *World) []EnvOp { return GCOps(w) }
				pokeAll(w)
			}},
			{Name: "finish", Quiet: true, MaxSteps: 3000 + 20000*min(1, len(discoveryGVs)), Policy: fair, OnBudget: budget,
				Do: func(w *World) { pokeStep = w.step; pokeAll(w) },
				Check: func(w *World) *Violation {
					// rejected answers cause no write
					for _, sy := range w.Syncs(parentKey) {
						calls := 0
						for _, h := range sy.Hooks {
							if h.Kind == "sync" || h.Kind == "finalize" {
								calls++
							}
						}
						for _, h := range sy.Hooks {
							m, ok := muts[h]
							if !ok {
								continue
							}
							if calls > 1 && h.Code == 200 {
								// rolling update: the answer for an old revision is only used for the
								// children that revision still claims; the rest of it may go unread
								continue
							}
							if sy.EndStep != 0 && m.rejected && len(sy.Errs) == 0 {
								// composite treats a hook 429 as "try later" without an error; no other rejection may pass silently
								s2 := copySig(sig)
								s2["mutation"] = m.class
								return &Violation{Prop: "C13", Class: "rejected-answer-not-reported", Sig: s2, Step: sy.EndStep,
									Detail: fmt.Sprintf("sync started at step %d: the %s answer (%s, status %d) must be rejected, but the sync ended without an error", sy.StartStep, h.Kind, m.class, h.Code)}
							}
							if !m.rejected {
								continue
							}
							for _, q := range sy.Reqs {
								if q.Arrival > h.Arrival && q.IsWrite() && q.Res != nil && isChild(q.Res) && q.Fault != "cancelled" && q.Fault != "crashed" {
									s2 := copySig(sig)
									s2["mutation"] = m.class
									return &Violation{Prop: "C13", Class: "write-on-rejected-answer", Sig: s2, Step: q.Step,
										Detail: fmt.Sprintf("sync started at step %d: after the rejected %s answer (%s, status %d, body %.120q) %s was sent", sy.StartStep, h.Kind, m.class, h.Code, h.RespBody, q.Short())}
								}
							}
						}
					}
					// the work was not dropped: once answers are valid again every live parent is synced
					// (what state earlier, accepted-but-odd answers left behind is the hook's business)
					for _, p := range liveParents(w) {
						synced := false
						for _, h := range w.Hooks {
							if h.ParkStep > pokeStep && hookParentIs(h, parentKey, p) {
								synced = true
							}
						}
						if !synced {
							return &Violation{Prop: "C13", Class: "parent-dropped-after-hostile-answers", Sig: sig,
								Detail: fmt.Sprintf("%s %s/%s was not synced again after its update at step %d", p.Res.Kind, p.NS, p.Name, pokeStep)}
						}
					}
					_ = finalCheck
					return nil
				}},
		}
		// classes seen, for the evidence
		w.idleHook = nil
		_ = sort.Strings
	}}
}
