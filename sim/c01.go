package sim

import (
	"fmt"
	"sort"
	"strings"
)

// EditObject applies f to the stored object as actor (unconditional update).
func EditObject(w *World, res *Resource, ns, name, actor string, f func(o Object)) bool {
	o := w.Store.Get(res, ns, name)
	if o == nil {
		return false
	}
	f(o)
	delete(meta(o), "resourceVersion")
	if _, e := w.Store.Update(res, ns, name, "", o, actor); e != nil {
		w.logf("env edit %s %s/%s refused: %v", res.Kind, ns, name, e)
		return false
	}
	return true
}

// EditStatus replaces the status of the stored object as actor.
func EditStatus(w *World, res *Resource, ns, name, actor string, f func(o Object)) bool {
	o := w.Store.Get(res, ns, name)
	if o == nil {
		return false
	}
	f(o)
	delete(meta(o), "resourceVersion")
	sub := ""
	if res.Status {
		sub = "status"
	}
	_, e := w.Store.Update(res, ns, name, sub, o, actor)
	return e == nil
}

// ParentRef identifies one parent object of a scenario.
type ParentRef struct {
	Res      *Resource
	NS, Name string
}

func (p ParentRef) Get(w *World) Object { return w.Store.Get(p.Res, p.NS, p.Name) }

// hookParentIs reports whether a hook call concerns the given parent.
func hookParentIs(h *HookRec, key string, p ParentRef) bool {
	o := getMap(h.Req, key)
	return getStr(o, "kind") == p.Res.Kind && getStr(o, "metadata", "name") == p.Name && getStr(o, "metadata", "namespace") == p.NS
}

// drawChildRules draws 1-2 child kinds with an update method each.
func drawChildRules(t *Tape, parent *Resource, methods []string, kinds []*Resource) []ChildRule {
	n := 1 + t.Pick(2, "nkinds")
	var rules []ChildRule
	used := map[*Resource]bool{}
	for i := 0; i < n; i++ {
		k := kinds[t.Pick(len(kinds), "kind")]
		if used[k] {
			continue
		}
		used[k] = true
		rules = append(rules, ChildRule{Res: k, Method: methods[t.Pick(len(methods), "method")]})
	}
	return rules
}

var allMethods = []string{"InPlace", "", "OnDelete", "Recreate", "RollingInPlace", "RollingRecreate"}

func lagPolicy(t *Tape) *Policy {
	switch t.Pick(3, "policy") {
	case 1:
		return &Policy{Name: "lagging", Shuffle: true, HoldWatch: 100 + 200*t.Pick(4, "hold"), AdvanceProb: 30}
	case 2:
		return &Policy{Name: "shuffle", Shuffle: true, AdvanceProb: 10}
	}
	return &Policy{Name: "eager"}
}

// C01Scenario: convergence to the hook's desired children, then quiet.
func C01Scenario() *Scenario {
	return &Scenario{Prop: "C01", Init: func(w *World) {
		t := w.T
		s := NewCompositeSetup(w, GenOpts{PlainOwner: true, SameNames: true, AllowCluster: true, AllowSSA: true, MaxWorkers: 3, MaxParents: 2, Programs: true, AvoidKnown: true, Resync: true})
		cfg, opts, parents := s.Cfg, s.Opts, s.Parents
		b := &EnvBudget{Left: t.Pick(4, "edits")}
		lastEditStep := 0
		w.EnvOps = func(w *World) []EnvOp {
			if b.Left <= 0 {
				return nil
			}
			lastEditStep = w.step
			var ops []EnvOp
			ops = append(ops, s.ParentEdits(b)...)
			ops = append(ops, s.ParentEdits(b)...)
			// other writers: delete, drift (scalar, plain list, foreign field)
			for _, op := range s.ChildChaos(b) {
				if strings.HasPrefix(op.Name, "delete ") || strings.HasPrefix(op.Name, "drift-") {
					ops = append(ops, op)
				}
			}
			return ops
		}
		pol := lagPolicy(t)
		pol.EnvProb = 60
		w.Cfg["policy"] = pol.Name
		pokeStep := 0
		w.Stages = []Stage{
			{Name: "converge", Policy: pol, Quiet: true, MaxSteps: 2500, Do: func(w *World) {}, OnBudget: func(w *World) *Violation { return c01Budget(w, cfg, opts) }},
			{Name: "drain", Quiet: true, MaxSteps: 2500, Do: func(w *World) { b.Left = 0 }, OnBudget: func(w *World) *Violation { return c01Budget(w, cfg, opts) }},
			// "repeatedly syncing ... reaches a state": one sync of every parent with current
			// caches belongs to reaching it (it may still tidy up, e.g. a ControllerRevision
			// that a sync working from a stale cache re-created); what follows is measured
			{Name: "sync-once-more", Quiet: true, MaxSteps: 3000, OnBudget: func(w *World) *Violation { return c01Budget(w, cfg, opts) },
				Do: func(w *World) {
					for _, p := range parents {
						EditObject(w, p.Res, p.NS, p.Name, "user", func(o Object) { setPath(o, "0", "metadata", "annotations", "poke") })
					}
				}},
			{Name: "poke", Quiet: true, MaxSteps: 3000,
				Do: func(w *World) {
					pokeStep = w.step
					for _, p := range parents {
						EditObject(w, p.Res, p.NS, p.Name, "user", func(o Object) { setPath(o, "1", "metadata", "annotations", "poke") })
					}
				},
				Check: func(w *World) *Violation {
					return c01Check(w, cfg, opts, parents, pokeStep, lastEditStep)
				}},
		}
	}}
}

type childID struct {
	res      *Resource
	ns, name string
}

func (c childID) String() string { return c.res.Kind + " " + c.ns + "/" + c.name }

// desiredFromResponse parses the children a hook response asked for.
func desiredFromResponse(w *World, body []byte, field string, parentNS string) (map[childID]Object, []childID, error) {
	resp, err := parse(body)
	if err != nil {
		return nil, nil, err
	}
	out := map[childID]Object{}
	var order []childID
	for _, c := range getList(resp, field) {
		cm, ok := c.(map[string]interface{})
		if !ok {
			return nil, nil, fmt.Errorf("non-object child")
		}
		av, _ := cm["apiVersion"].(string)
		group := ""
		if i := strings.IndexByte(av, '/'); i >= 0 {
			group = av[:i]
		}
		res := w.Store.ResourceByKind(group, getStr(cm, "kind"))
		if res == nil {
			return nil, nil, fmt.Errorf("unknown kind %v", cm["kind"])
		}
		ns := getStr(cm, "metadata", "namespace")
		if ns == "" && res.Namespaced {
			ns = parentNS
		}
		id := childID{res, ns, getStr(cm, "metadata", "name")}
		out[id] = cm
		order = append(order, id)
	}
	return out, order, nil
}

func compositeSig(cfg *CompositeCfg, opts *BootOptions) map[string]string {
	sig := map[string]string{"controller": "composite", "parentScope": map[bool]string{true: "namespaced", false: "cluster"}[cfg.Parent.Namespaced],
		"apply": map[bool]string{true: "ssa", false: "dynamic"}[opts.Proc.SSA], "generateSelector": fmt.Sprint(cfg.GenerateSelector)}
	rolling := false
	for _, r := range cfg.Children {
		if strings.HasPrefix(r.Method, "Rolling") {
			rolling = true
		}
	}
	sig["rolling"] = fmt.Sprint(rolling)
	if cfg.PlainOwnerHook {
		sig["hookOwnerRef"] = "plain-to-parent"
	}
	if cfg.EchoHook {
		recreate := false
		for _, r := range cfg.Children {
			if strings.Contains(r.Method, "Recreate") {
				recreate = true
			}
		}
		sig["hookEchoesAnnotations"] = map[bool]string{true: "with-recreate-strategy", false: "true"}[recreate]
	}
	return sig
}

// c01Budget: without any injected failure the world did not become quiet.
func c01Budget(w *World, cfg *CompositeCfg, opts *BootOptions) *Violation {
	last := ""
	if len(w.Errs) > 0 {
		last = w.Errs[len(w.Errs)-1].Msg
	}
	return &Violation{Prop: "C01", Class: "no-quiescence", Sig: compositeSig(cfg, opts),
		Detail: fmt.Sprintf("after %d kernel steps and %.0f simulated seconds without any injected failure metacontroller is still writing or failing (%d sync errors; last: %s)", w.step, w.SimSeconds, len(w.Errs), last)}
}

func c01Check(w *World, cfg *CompositeCfg, opts *BootOptions, parents []ParentRef, pokeStep, lastEditStep int) *Violation {
	sig := compositeSig(cfg, opts)
	// (1) quiet: after the poke no write of any kind is sent
	for _, r := range w.Reqs {
		isChild := r.Res != nil && cfg.Rule(r.Res) != nil
		// The statement forbids any write request for a child and any change in
		// the API server; a PUT of a ControllerRevision or parent that the server
		// short-circuits as a no-op changes nothing and is not about a child.
		if r.ParkStep > pokeStep && r.IsWrite() && r.Fault == "" && (isChild || r.Applied) {
			return &Violation{Prop: "C01", Class: "write-after-convergence", Sig: sig,
				Detail: fmt.Sprintf("request %s sent at step %d although the desired state had been reached before the no-op poke at step %d", r.Short(), r.ParkStep, pokeStep)}
		}
	}
	for _, e := range w.Errs {
		if e.Step > pokeStep {
			return &Violation{Prop: "C01", Class: "error-after-convergence", Sig: sig, Detail: "sync error after the poke: " + e.Msg}
		}
	}
	return convergedCheck(w, "C01", sig, cfg, parents, pokeStep)
}

// convergedCheck: the last hook exchange of each parent (after step pokeStep) describes the cluster.
func convergedCheck(w *World, prop string, sig map[string]string, cfg *CompositeCfg, parents []ParentRef, pokeStep int) *Violation {
	for _, p := range parents {
		po := p.Get(w)
		if po == nil {
			continue
		}
		if metaRO(po)["deletionTimestamp"] != nil && !(cfg.Finalize && hasFinalizer(po, cfg.FinalizerName()) && !hasGCFinalizer(po)) {
			continue // children of a parent that is being deleted and cannot be finalized are not managed
		}
		var last *HookRec
		for _, h := range w.Hooks {
			// with a rolling strategy there is one call per live parent revision;
			// the one that describes the desired end state carries the live spec
			if h.ParkStep > pokeStep && h.Code == 200 && (h.Kind == "sync" || h.Kind == "finalize") && hookParentIs(h, "parent", p) &&
				jsonString(getPath(h.Req, "parent", "spec")) == jsonString(po["spec"]) {
				last = h
			}
		}
		if last == nil {
			return &Violation{Prop: prop, Class: "no-sync-after-poke", Sig: sig, Detail: fmt.Sprintf("parent %s/%s was never synced after its update at step %d", p.NS, p.Name, pokeStep)}
		}
		desired, _, err := desiredFromResponse(w, last.RespBody, "children", p.NS)
		if err != nil {
			return &Violation{Prop: "HARNESS", Class: "bad-program-response", Detail: err.Error()}
		}
		owned := map[childID]Object{}
		for _, r := range cfg.Children {
			for _, o := range ControlledBy(w.Store, r.Res, mstr(po, "uid")) {
				owned[childID{r.Res, mstr(o, "namespace"), mstr(o, "name")}] = o
			}
		}
		var missing, extra []string
		for id := range desired {
			if _, ok := owned[id]; !ok {
				missing = append(missing, id.String())
			}
		}
		for id := range owned {
			if _, ok := desired[id]; !ok {
				extra = append(extra, id.String())
			}
		}
		sort.Strings(missing)
		sort.Strings(extra)
		if len(missing)+len(extra) > 0 {
			return &Violation{Prop: prop, Class: "children-differ-from-desired", Sig: sig,
				Detail: fmt.Sprintf("parent %s/%s at quiescence: desired but not owned %v; owned but not desired %v", p.NS, p.Name, missing, extra)}
		}
		for id, d := range desired {
			m := cfg.Rule(id.res).Method
			if m == "" || m == "OnDelete" {
				continue
			}
			want := deepCopy(d)
			delete(meta(want), "namespace")
			delete(want, "status") // a child's status belongs to the child's own controller
			// who owns a child is metacontroller's own business (C02, C04): a reference to
			// the parent that the hook listed is replaced by the controller reference
			delete(meta(want), "ownerReferences")
			if !contains(owned[id], want) {
				sig := copySig(sig)
				sig["kindHasGeneration"] = fmt.Sprint(id.res.Generation)
				return &Violation{Prop: prop, Class: "field-differs-from-desired", Sig: sig,
					Detail: fmt.Sprintf("child %s (method %s): stored %s does not contain desired %s", id, m, jsonString(owned[id]), jsonString(want))}
			}
		}
	}
	return nil
}

func copySig(m map[string]string) map[string]string {
	out := map[string]string{}
	for k, v := range m {
		out[k] = v
	}
	return out
}
