package sim

import (
	"fmt"
	"strings"
	"time"
)

// statusProgram wraps a template program and shapes the status it returns.
type statusProgram struct {
	tp   *TemplateProgram
	mode string // null, empty, nested, own-generation, conditions
}

func (sp *statusProgram) shape(resp Object, req Object) Object {
	switch sp.mode {
	case "null":
		delete(resp, "status")
	case "empty":
		resp["status"] = Object{}
	case "nested":
		resp["status"] = Object{"a": Object{"b": Object{"c": "deep", "n": int64(3)}}, "list": []interface{}{"x", Object{"k": "v"}}, "replicas": getInt(req, "parent", "spec", "replicas")}
	case "own-generation":
		st := getMap(resp, "status")
		if st == nil {
			st = Object{}
			resp["status"] = st
		}
		st["observedGeneration"] = int64(4242)
	case "conditions":
		st := getMap(resp, "status")
		if st == nil {
			st = Object{}
			resp["status"] = st
		}
		st["conditions"] = []interface{}{Object{"type": "Ready", "status": "True"}, Object{"type": "Updated", "status": "Mine", "reason": "HookSaysSo"}}
	}
	return resp
}

func (sp *statusProgram) Sync(req Object) Object { return sp.shape(sp.tp.SyncResponse(req), req) }
func (sp *statusProgram) Finalize(req Object) Object {
	return sp.shape(sp.tp.FinalizeResponse(req), req)
}

// C11Scenario: parent status = hook status + observedGeneration; nothing else is touched.
func C11Scenario() *Scenario {
	return &Scenario{Prop: "C11", Init: func(w *World) {
		t := w.T
		nonRolling := []string{"InPlace", "", "OnDelete", "Recreate"}
		s := NewCompositeSetup(w, GenOpts{Methods: nonRolling, AllowCluster: true, MaxWorkers: 2, MaxParents: 2, Resync: true})
		modes := []string{"plain", "null", "empty", "nested", "own-generation", "conditions"}
		sp := &statusProgram{tp: s.TP, mode: modes[t.Pick(len(modes), "statusmode")]}
		w.Cfg["status"] = sp.mode
		s.Progs["cc"].Sync = sp.Sync
		s.Progs["cc"].Finalize = sp.Finalize
		b := &EnvBudget{Left: 3 + t.Pick(6, "envbudget")}
		if t.Pick(3, "foreignfinalizer") == 2 {
			// somebody else's finalizer keeps a deleted parent alive after ours is gone
			for _, p := range s.Parents {
				EditObject(w, p.Res, p.NS, p.Name, "setup", func(o Object) { setPath(o, []interface{}{"example.com/hold-parent"}, "metadata", "finalizers") })
			}
			w.Cfg["foreignFinalizer"] = "true"
		}
		w.EnvOps = func(w *World) []EnvOp {
			var ops []EnvOp
			ops = append(ops, s.ParentEdits(b)...)
			ops = append(ops, s.ParentReplace(b)...)
			ops = append(ops, s.ParentLifecycle(b)...)
			ops = append(ops, s.ChildChaos(b)...)
			ops = append(ops, GCOps(w)...)
			// a label / annotation / foreign finalizer edit on the parent: must survive status writes
			for _, p := range s.Parents {
				p := p
				if b.Left > 0 && p.Get(w) != nil {
					ops = append(ops, EnvOp{"annotate-parent " + p.Name, func(w *World) {
						b.take()
						EditObject(w, p.Res, p.NS, p.Name, "user", func(o Object) {
							setPath(o, fmt.Sprint(w.step), "metadata", "annotations", "note")
							setPath(o, fmt.Sprint(w.step), "metadata", "labels", "tier")
						})
					}})
				}
			}
			return ops
		}
		pol := &Policy{Name: "status-faults", Shuffle: t.Pick(2, "shuffle") == 1, HoldWatch: 150 * t.Pick(4, "hold"), EnvProb: 100, AdvanceProb: 20,
			APIFault: 60 + 60*t.Pick(3, "faultrate"), APIFaults: []string{"409", "500", "503", "504", "404", "neterr", "lost", "servertimeout", "429"},
			FaultFilter: func(r *ReqRec) bool { return r.Sync >= 0 }}
		w.Cfg["policy"] = fmt.Sprintf("hold=%d fault=%d", pol.HoldWatch, pol.APIFault)
		w.Stages = []Stage{
			{Name: "chaos", Policy: pol, Steps: 200 + 100*t.Pick(3, "len")},
			{Name: "drain", Quiet: true, CheckOnBudget: true, MaxSteps: 4000, Do: func(w *World) { b.Left = 0 }, Check: func(w *World) *Violation { return c11Oracle(w, s) }},
		}
		if s.Cfg.Parent == ResThing && t.Pick(6, "late-status-subresource") == 5 {
			// the parent CRD gains its status subresource only later: until then the
			// CompositeController cannot start (Reconcile fails and is retried), while a
			// DecoratorController on the same resource is already at work through the shared
			// clientset. Then the CRD is changed, discovery (2 s refresh) picks it up, and
			// the composite controller starts: its status writes must use the status
			// endpoint the resource has *now*.
			w.Cfg["lateStatusSubresource"] = "true"
			setThingStatus := func(w *World, on bool) {
				ResThing.Status = on
				EditObject(w, ResCRD, "", ResThing.Plural+"."+ResThing.Group, "user", func(o Object) { o["spec"] = crdFor(ResThing)["spec"] })
			}
			setThingStatus(w, false)
			dcfg := &DecoratorCfg{Name: "dcl", Ver: 1, Resources: []DecoratorResourceRule{{Res: ResThing}}}
			mustCreate(w.Store, ResDecoratorCtl, "", dcfg.Object(), "setup")
			s.Opts.Decorators = append(s.Opts.Decorators, dcfg)
			s.Progs["dcl"] = &Program{Sync: func(req Object) Object { return Object{} }}
			s.Opts.Proc.Discovery = 2 * time.Second
			w.Stages = append([]Stage{
				{Name: "before-the-status-subresource", Policy: FairPolicy, Steps: 80},
				{Name: "status-subresource-added", Policy: FairPolicy, Steps: 40, Do: func(w *World) {
					setThingStatus(w, true)
					for i := 0; i < 8; i++ {
						if r := w.Proc.Resources.Get(ResThing.APIVersion(), ResThing.Plural); r != nil && r.HasSubresource("status") {
							break
						}
						w.SleepHard(1100 * time.Millisecond)
						for j := 0; j < 40 && !w.Idle(); j++ {
							w.StepOnce(FairPolicy)
						}
					}
					w.Proc.Reconcile("composite", s.Cfg.Name)
					w.Probe("c11:status-subresource-added-later")
				}},
			}, w.Stages...)
		}
	}}
}

func withoutStatus(raw []byte) string {
	if raw == nil {
		return ""
	}
	o := mustParse(raw)
	delete(o, "status")
	m := meta(o)
	delete(m, "resourceVersion")
	return jsonString(o)
}

// c11Oracle judges every composite sync that got as far as reconciling children.
func c11Oracle(w *World, s *Setup) *Violation {
	report := func(v *Violation) *Violation {
		if w.Known(v) {
			return nil
		}
		return v
	}
	for _, sy := range w.Syncs("parent") {
		if sy.EndStep == 0 {
			continue // cut short by a crash or still running
		}
		if sy.Queue != s.Cfg.QueueName() {
			continue // (the decorator of the late-status-subresource runs: not the composite controller's sync)
		}
		// the hook answer the status comes from: the last sync/finalize answer (non-rolling: the only one)
		var h *HookRec
		for _, x := range sy.Hooks {
			if x.Kind == "sync" || x.Kind == "finalize" {
				h = x
			}
		}
		if h == nil || h.Code != 200 || h.Fault != "" {
			continue
		}
		parent := getMap(h.Req, "parent")
		resp, err := parse(h.RespBody)
		if err != nil {
			continue
		}
		pres := s.Cfg.Parent
		pns, pname, puid := mstr(parent, "namespace"), mstr(parent, "name"), mstr(parent, "uid")
		where := fmt.Sprintf("sync of %s %s/%s started at step %d", pres.Kind, pns, pname, sy.StartStep)
		// children accepted? (a selector mismatch aborts before reconciling; judged by C04)
		sel, ok := parentSelector(s.Cfg, parent, false)
		if !ok {
			continue
		}
		desired, _, derr := desiredFromResponse(w, h.RespBody, "children", pns)
		if derr != nil {
			continue
		}
		rejected := false
		for _, d := range desired {
			l := labelsOf(d)
			if s.Cfg.GenerateSelector {
				if _, has := l["controller-uid"]; !has {
					l["controller-uid"] = puid
				}
			}
			if !selectorMatches(sel, l) {
				rejected = true
			}
		}
		if rejected {
			continue
		}
		expected := Object{}
		if st, ok := resp["status"].(map[string]interface{}); ok {
			expected = deepCopy(st)
		}
		expected["observedGeneration"] = getInt(parent, "metadata", "generation")
		// the requests of this sync on the parent after the hook answer
		var seq []*ReqRec
		finalizerRemoved := false
		for _, q := range sy.Reqs {
			if q.Arrival > h.Arrival && q.Res == pres && q.NS == pns && q.Name == pname {
				seq = append(seq, q)
			}
		}
		// a finalize answer with finalized:true is followed by the finalizer removal (GET + PUT on the main resource)
		if fin, _ := resp["finalized"].(bool); fin && h.Kind == "finalize" {
			finalizerRemoved = true
		}
		i := 0
		if finalizerRemoved {
			// skip the AtomicUpdate that removes the finalizer: GETs and PUTs on the main resource
			for i < len(seq) && !(seq[i].Verb == "update" && seq[i].Sub == "status") {
				if seq[i].Verb == "update" && seq[i].Sub == "" && accepted(seq[i]) {
					i++
					break
				}
				i++
			}
			// if the removal failed - as far as metacontroller can tell: an applied write
			// whose response was lost is a failure, too - the sync aborts: nothing to judge
			if i > 0 && !(seq[i-1].Verb == "update" && accepted(seq[i-1]) && seq[i-1].Fault == "") {
				continue
			}
			if metaRO(parent)["deletionTimestamp"] != nil {
				// removing the last finalizer deletes the parent (the status write gets
				// NotFound); a parent that somebody else's finalizer keeps alive is judged
				survives := false
				if i > 0 && seq[i-1].Pre != nil {
					for _, f := range getList(mustParse(seq[i-1].Pre), "metadata", "finalizers") {
						if fs, _ := f.(string); fs != "" && fs != s.Cfg.FinalizerName() {
							survives = true
						}
					}
				}
				if !survives {
					continue
				}
				w.Probe("c11:finalized-parent-kept-alive-by-foreign-finalizer")
			}
		}
		seq = seq[i:]
		w.Probe("c11:sync-judged")
		if finalizerRemoved {
			w.Probe("c11:after-finalizer-removal")
		}
		for _, q := range sy.Reqs {
			if q.IsWrite() && q.Res != nil && s.Cfg.Rule(q.Res) != nil && !accepted(q) {
				w.Probe("c11:child-write-failed-in-sync")
				break
			}
		}
		if len(seq) == 0 {
			if v := report(&Violation{Prop: "C11", Class: "status-not-attempted", Sig: s.Sig, Step: sy.EndStep,
				Detail: where + ": the hook answered and the children were accepted, but no request on the parent followed (no live read, no status write)"}); v != nil {
				return v
			}
			continue
		}
		var lastGet *ReqRec
		conflicts := 0
		for j, q := range seq {
			switch {
			case q.Verb == "get":
				lastGet = q
			case q.Verb == "update":
				w.Probe("c11:status-put")
				if lastGet == nil {
					if v := report(&Violation{Prop: "C11", Class: "status-write-without-live-read", Sig: s.Sig, Step: q.Step, Detail: where + ": " + q.Short()}); v != nil {
						return v
					}
					continue
				}
				if q.Sub != "status" {
					if v := report(&Violation{Prop: "C11", Class: "status-written-through-main-resource", Sig: s.Sig, Step: q.Step,
						Detail: where + ": parent updated through " + q.Path + " instead of the status endpoint"}); v != nil {
						return v
					}
				}
				if lastGet.Code == 200 && lastGet.Post != nil {
					live := mustParse(lastGet.Post)
					if mstr(live, "uid") != puid {
						w.Probe("c11:put-after-other-uid")
						if v := report(&Violation{Prop: "C11", Class: "status-written-to-other-uid", Sig: s.Sig, Step: q.Step,
							Detail: fmt.Sprintf("%s: live parent has uid %s, the synced parent %s, yet %s was sent", where, mstr(live, "uid"), puid, q.Short())}); v != nil {
							return v
						}
					}
					body, err := parse(q.Body)
					if err == nil {
						want := deepCopy(live)
						want["status"] = expected
						if jsonString(body) != jsonString(want) {
							class := "status-body-wrong"
							if jsonString(body["status"]) == jsonString(expected) {
								class = "status-write-changes-other-fields"
							}
							if v := report(&Violation{Prop: "C11", Class: class, Sig: s.Sig, Step: q.Step,
								Detail: fmt.Sprintf("%s: PUT body status %s, expected %s (hook status + observedGeneration of the parent sent to the hook)", where, jsonString(body["status"]), jsonString(expected))}); v != nil {
								return v
							}
						}
					}
				}
				if accepted(q) && withoutStatus(q.Pre) != withoutStatus(q.Post) {
					if v := report(&Violation{Prop: "C11", Class: "status-write-changed-more", Sig: s.Sig, Step: q.Step,
						Detail: where + ": the accepted status write changed something outside .status"}); v != nil {
						return v
					}
				}
				if q.Code == 409 {
					conflicts++
					w.Probe("c11:status-put-409")
					// retried against a fresh read (client-go gives up after a bounded number of attempts)
					if j+1 < len(seq) {
						if seq[j+1].Verb != "get" {
							if v := report(&Violation{Prop: "C11", Class: "conflict-not-retried-with-fresh-read", Sig: s.Sig, Step: q.Step,
								Detail: where + ": after a 409 the next request on the parent is " + seq[j+1].Short()}); v != nil {
								return v
							}
						}
					} else if attempts409(seq) < 2 && sy.EndStep != 0 {
						// (how many attempts client-go makes before it gives up is its business; an
						// injected 409 on the fresh read uses one up, too. What the statement asks
						// is that a conflict is retried at all.)
						if v := report(&Violation{Prop: "C11", Class: "conflict-not-retried", Sig: s.Sig, Step: q.Step,
							Detail: fmt.Sprintf("%s: the status write got a 409 (%d so far) and was not retried", where, conflicts)}); v != nil {
							return v
						}
					}
				}
				lastGet = nil
			}
		}
		// a live read that shows a status different from the expected one must be followed by a write
		last := seq[len(seq)-1]
		if last.Verb == "get" && last.Code == 200 && last.Post != nil {
			live := mustParse(last.Post)
			if mstr(live, "uid") != puid {
				w.Probe("c11:live-read-other-uid-no-put")
			}
			if mstr(live, "uid") == puid {
				w.Probe("c11:write-skipped-equal-or-judged")
				have := live["status"]
				if jsonString(have) != jsonString(expected) {
					if v := report(&Violation{Prop: "C11", Class: "status-write-skipped", Sig: s.Sig, Step: last.Step,
						Detail: fmt.Sprintf("%s: live status %s differs from expected %s but no write followed", where, jsonString(have), jsonString(expected))}); v != nil {
						return v
					}
				}
			}
		}
		_ = strings.Join
	}
	return nil
}

// attempts409 counts the requests of a status-update sequence that were answered 409.
func attempts409(seq []*ReqRec) int {
	n := 0
	for _, q := range seq {
		if q.Code == 409 {
			n++
		}
	}
	return n
}
