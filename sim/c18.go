package sim

import (
	"fmt"
	"runtime"
	"sort"
	"strings"
	"testing/synctest"
	"time"

	"k8s.io/apimachinery/pkg/apis/meta/v1/unstructured"
	"k8s.io/client-go/discovery"
	"k8s.io/client-go/rest"
	"k8s.io/client-go/tools/cache"
	"k8s.io/client-go/util/flowcontrol"

	dynamicclientset "metacontroller/pkg/dynamic/clientset"
	dynamicdiscovery "metacontroller/pkg/dynamic/discovery"
	dynamicinformer "metacontroller/pkg/dynamic/informer"
)

type c18Event struct {
	step     int
	typ      string // add update delete
	key      string
	rv       string
	sameObjs bool // update with old == new (a replay / resync)
	seq      int  // position in the run-wide order of handler calls and completed operations
}

type c18Handler struct {
	id         int
	sub        *c18Sub
	addStep    int
	removeStep int // 0 = still registered
	removeSeq  int // run-wide sequence number at which the removing call had returned
	events     []c18Event
	cachedAt   map[objKey][]byte // cache content when it was added
	world      *World
	// racing: the handler was added in the very kernel step in which a watch frame
	// was handed to the informer, and its callbacks yield the processor while the
	// initial replay runs, so the informer processes that frame during addHandler
	slow    bool // a handler that takes 300 ms (simulated) per object of its own periodic resync
	adding  bool // inside the AddEventHandler call (the initial replay runs under the shared handler's lock)
	racing  bool
	resync  time.Duration // its own resync period (0 = the informer's)
	gate    chan struct{} // when set: the next callback of its own resync round parks here (no lock held)
	parked  bool
	raceKey string
	raceIdx int // index in the cache log of the frame handed over together with the add
}

func (h *c18Handler) rec(typ string, obj interface{}, same bool) {
	u, ok := obj.(*unstructured.Unstructured)
	if !ok {
		if ts, ok2 := obj.(cache.DeletedFinalStateUnknown); ok2 {
			u, _ = ts.Obj.(*unstructured.Unstructured)
		}
	}
	if u == nil {
		return
	}
	h.world.mu.Lock()
	h.world.c18seq++
	h.events = append(h.events, c18Event{step: h.world.step, typ: typ, key: u.GetNamespace() + "/" + u.GetName(), rv: u.GetResourceVersion(), sameObjs: same, seq: h.world.c18seq})
	slow, racing := h.slow && !h.adding, h.racing
	var gate chan struct{}
	if same && h.gate != nil && !h.parked && !h.adding && inOwnResyncRound() {
		gate, h.parked = h.gate, true
	}
	h.world.mu.Unlock()
	if gate != nil {
		<-gate // in the middle of the resync round, until the kernel says go on
	}
	if slow && same && inOwnResyncRound() {
		// (only there: in the shared handler's fan-out the read lock is held, and a
		// goroutine sleeping with it would stall every writer of that lock - and with
		// them the simulated clock it is sleeping on)
		time.Sleep(300 * time.Millisecond)
	}
	if racing && same {
		// a handler that takes its time: every other runnable goroutine gets the
		// processor (no lock of the harness is held here)
		for i := 0; i < 64; i++ {
			runtime.Gosched()
		}
	}
}

// inOwnResyncRound reports whether the caller is being called from the handler's
// own periodic resync ((*eventHandler).resync, which holds no lock) rather than
// from the shared handler's fan-out (which holds its read lock while it calls).
func inOwnResyncRound() bool {
	var pcs [24]uintptr
	n := runtime.Callers(2, pcs[:])
	frames := runtime.CallersFrames(pcs[:n])
	for {
		f, more := frames.Next()
		if strings.HasSuffix(f.Function, "(*eventHandler).resync") {
			return true
		}
		if !more {
			return false
		}
	}
}

func (h *c18Handler) OnAdd(obj interface{}, isInInitialList bool) { h.rec("add", obj, false) }
func (h *c18Handler) OnUpdate(oldObj, newObj interface{}) {
	o, _ := oldObj.(*unstructured.Unstructured)
	n, _ := newObj.(*unstructured.Unstructured)
	h.rec("update", newObj, o != nil && n != nil && o.GetResourceVersion() == n.GetResourceVersion())
}
func (h *c18Handler) OnDelete(obj interface{}) { h.rec("delete", obj, false) }

type c18Sub struct {
	id        int
	res       *Resource
	ri        *dynamicinformer.ResourceInformer
	openStep  int
	closeStep int
	handlers  []*c18Handler
	inc       int
}

// C18Scenario: shared informers live while subscribed to; subscribers are isolated.
// The real SharedInformerFactory runs over the simulated API server; a seeded
// sequence of subscribe / add handler / remove handlers / close / object events /
// clock advances is applied and compared, step by step, with a reference model
// (a subscription count per resource, a handler set per subscription).
func C18Scenario() *Scenario {
	return &Scenario{Prop: "C18", Init: func(w *World) {
		t := w.T
		InstallUniverse(w)
		resources := []*Resource{ResWidget, ResConfigMap}
		for _, r := range resources {
			for i := 0; i < 2; i++ {
				mustCreate(w.Store, r, "ns1", Object{"metadata": Object{"name": fmt.Sprintf("o%d", i)}, childContentField(r): Object{"v": "0"}}, "user")
			}
		}
		gapAt := map[*Resource]time.Duration{} // when the watch of a resource was last cut by the scenario
		var factory *dynamicinformer.SharedInformerFactory
		var rm *dynamicdiscovery.ResourceMap
		// in a quarter of the runs discovery does not know the Widget group-version at first
		// (its document is unavailable): subscribing to it fails, and must leave nothing
		// behind - once discovery has caught up, subscriptions to it live and die as any other
		widgetKnown := true
		refresh := time.Hour
		if t.Pick(4, "late-discovery") == 3 {
			widgetKnown = false
			refresh = 20 * time.Second
			w.DiscoveryDown = map[string]bool{ResWidget.Group + "/" + ResWidget.Version: true}
			w.Cfg["lateDiscovery"] = "true"
		}
		var subs []*c18Sub
		var handlers []*c18Handler
		w.OnBoot = func(w *World) {
			cfg := &rest.Config{Host: "http://apiserver.sim", Transport: &APITransport{W: w}, RateLimiter: flowcontrol.NewFakeAlwaysRateLimiter()}
			rm = dynamicdiscovery.NewResourceMap(discovery.NewDiscoveryClientForConfigOrDie(cfg))
			dc, err := dynamicclientset.New(cfg, rm)
			if err != nil {
				panic(err)
			}
			rm.Start(refresh)
			for i := 0; !rm.HasSynced() && i < 200; i++ {
				w.StepOnce(FairPolicy)
			}
			factory = dynamicinformer.NewSharedInformerFactory(dc, 30*time.Minute)
		}
		sig := map[string]string{"component": "shared-informer-factory"}
		w.YieldPermille = []int{0, 250, 600}[t.Pick(3, "yield")]
		w.Cfg["yieldPermille"] = fmt.Sprint(w.YieldPermille)
		nOps := 4 + t.Pick(9, "nops")
		w.Cfg["ops"] = fmt.Sprint(nOps)
		var opLog []string
		count := func(res *Resource) int {
			n := 0
			for _, s := range subs {
				if s.res == res && s.closeStep == 0 {
					n++
				}
			}
			return n
		}
		liveWatch := func(res *Resource) int {
			n := 0
			for _, ws := range w.OpenStreams() {
				if ws.Res == res {
					n++
				}
			}
			return n
		}
		// one operation, drawn from the tape
		var doOp func(w *World)
		forcedOp, forcedSub := "", (*c18Sub)(nil)
		doOp = func(w *World) {
			kinds := []string{"subscribe", "add-handler", "add-handler-resync", "remove-handlers", "close", "object-edit", "object-create", "object-delete", "advance", "add-handler-racing", "remove-handlers-racing", "close-racing", "subscribe-racing", "remove-handlers-midround", "object-delete-in-watch-gap", "close-then-subscribe-at-once"}
			if !widgetKnown {
				kinds = append(kinds, "discovery-back", "subscribe", "subscribe-racing")
			}
			op := kinds[t.Pick(len(kinds), "op")]
			if forcedOp != "" {
				op, forcedOp = forcedOp, ""
			}
			var open []*c18Sub
			for _, s := range subs {
				if s.closeStep == 0 {
					open = append(open, s)
				}
			}
			markRemoved := func(s *c18Sub) {
				w.mu.Lock()
				w.c18seq++
				for _, h := range s.handlers {
					if h.removeStep == 0 {
						h.removeStep = w.step
						h.removeSeq = w.c18seq
					}
				}
				w.mu.Unlock()
			}
			// handFrame gives the informer of res something to do in this very step: a
			// pending watch frame (made by a write of another party if there is none)
			handFrame := func(res *Resource) {
				// (not while a slow handler of that resource may be in the middle of its own
				// resync: the removing call waits for it with the handler lock held, the
				// informer would block on that lock, and a goroutine blocked on a mutex keeps
				// the simulated clock - which the slow handler is sleeping on - from moving)
				for _, h := range handlers {
					if h.slow && h.sub.res == res && h.removeStep == 0 {
						return
					}
				}
				pending := false
				for _, ws := range w.OpenStreams() {
					if ws.Res == res && w.streamPending(ws) {
						pending = true
					}
				}
				if !pending {
					name := fmt.Sprintf("o%d", t.Pick(4, "obj"))
					if !EditObject(w, res, "ns1", name, "user", func(o Object) { setPath(o, fmt.Sprint(w.step), childContentField(res), "v") }) {
						w.Store.Create(res, "ns1", Object{"metadata": Object{"name": name}, childContentField(res): Object{"v": "new"}}, "user")
					}
				}
				for _, ws := range w.OpenStreams() {
					if ws.Res == res && w.streamPending(ws) && w.Deliver(ws) {
						w.Probes["operation-while-frame-in-flight"]++
						return
					}
				}
			}
			switch op {
			case "subscribe-racing":
				// two controllers ask for the same resource at the same moment
				res := resources[t.Pick(len(resources), "res")]
				type got struct {
					ri  *dynamicinformer.ResourceInformer
					err error
				}
				ch := make(chan got, 1)
				go func() {
					ri, err := factory.Resource(res.APIVersion(), res.Plural)
					ch <- got{ri, err}
				}()
				ri2, err2 := factory.Resource(res.APIVersion(), res.Plural)
				g1 := <-ch
				for _, g := range []got{g1, {ri2, err2}} {
					if g.err != nil && res == ResWidget && !widgetKnown {
						w.Probe("c18:subscribe-to-undiscovered-resource-failed")
						opLog = append(opLog, fmt.Sprintf("%d subscribe-racing %s failed (not discovered)", w.step, res.Kind))
						continue
					}
					if g.err != nil {
						w.Violation = &Violation{Prop: "HARNESS", Class: "subscribe-failed", Detail: g.err.Error()}
						return
					}
					s := &c18Sub{id: len(subs), res: res, ri: g.ri, openStep: w.step, inc: w.inc}
					subs = append(subs, s)
					opLog = append(opLog, fmt.Sprintf("%d subscribe-racing#%d %s", w.step, s.id, res.Kind))
				}
			case "subscribe":
				res := resources[t.Pick(len(resources), "res")]
				ri, err := factory.Resource(res.APIVersion(), res.Plural)
				if err != nil && res == ResWidget && !widgetKnown {
					w.Probe("c18:subscribe-to-undiscovered-resource-failed")
					opLog = append(opLog, fmt.Sprintf("%d subscribe %s failed (not discovered)", w.step, res.Kind))
					return
				}
				if err != nil {
					w.Violation = &Violation{Prop: "HARNESS", Class: "subscribe-failed", Detail: err.Error()}
					return
				}
				s := &c18Sub{id: len(subs), res: res, ri: ri, openStep: w.step, inc: w.inc}
				subs = append(subs, s)
				opLog = append(opLog, fmt.Sprintf("%d subscribe#%d %s", w.step, s.id, res.Kind))
				if count(res) == 1 && t.Pick(3, "handler-during-first-list") == 2 {
					// the first subscriber adds its handler while the informer's first LIST is
					// being answered (a controller starting against a populated cluster)
					w.settle()
					forcedOp, forcedSub = "add-handler-racing", s
					doOp(w)
				}
			case "add-handler", "add-handler-resync", "add-handler-racing":
				if len(open) == 0 {
					return
				}
				s := open[t.Pick(len(open), "sub")]
				if forcedSub != nil {
					s, forcedSub = forcedSub, nil
				}
				listRace := false
				if op == "add-handler-racing" {
					// the informer of this resource is still waiting for its first LIST: answer it
					// and add the handler within the same kernel step, so that the handler
					// arrives while the listed objects are being taken into the cache
					for _, r := range w.PendingReqs() {
						if r.Method == "GET" && r.Query.Get("watch") != "true" && strings.HasSuffix(r.Path, "/"+s.res.Plural) {
							w.Serve(r, "")
							w.Probes["handler-added-while-initial-list-in-flight"]++
							listRace = true
							// ... with a head start for the informer: with yield points on, it
							// takes some of the listed objects into its cache before the handler comes
							for i, n := 0, t.Pick(16, "list-head-start"); i < n; i++ {
								runtime.Gosched()
							}
							break
						}
					}
				}
				h := &c18Handler{id: len(handlers), sub: s, addStep: w.step, world: w, cachedAt: w.Cache.View(w.inc, s.res, w.step)}
				handlers = append(handlers, h)
				s.handlers = append(s.handlers, h)
				if op == "add-handler-racing" && listRace {
					h.racing = true
				} else if op == "add-handler-racing" {
					// hand one pending frame of this resource to the informer and add the
					// handler within the same kernel step
					h.racing = true
					pending := false
					for _, ws := range w.OpenStreams() {
						if ws.Res == s.res && w.streamPending(ws) {
							pending = true
						}
					}
					if !pending {
						// make one: another writer changes an object right now
						name := fmt.Sprintf("o%d", t.Pick(4, "obj"))
						switch t.Pick(3, "racewrite") {
						case 0:
							EditObject(w, s.res, "ns1", name, "user", func(o Object) { setPath(o, fmt.Sprint(w.step), childContentField(s.res), "v") })
						case 1:
							w.Store.Create(s.res, "ns1", Object{"metadata": Object{"name": name}, childContentField(s.res): Object{"v": "new"}}, "user")
						case 2:
							w.Store.Delete(s.res, "ns1", name, DeleteOpts{}, "user")
						}
					}
					for _, ws := range w.OpenStreams() {
						if ws.Res == s.res && w.streamPending(ws) && w.Deliver(ws) {
							last := w.Cache.log[len(w.Cache.log)-1]
							h.raceKey = last.Key.ns + "/" + last.Key.name
							h.raceIdx = len(w.Cache.log) - 1
							w.Probes["handler-added-while-frame-in-flight"]++
							break
						}
					}
				}
				w.mu.Lock()
				h.adding = true
				w.mu.Unlock()
				defer func() { w.mu.Lock(); h.adding = false; w.mu.Unlock() }()
				if op != "add-handler-resync" {
					s.ri.Informer().AddEventHandler(h)
				} else {
					slow := t.Pick(2, "slow") == 1
					w.mu.Lock()
					h.slow = slow
					w.mu.Unlock()
					period := time.Duration(2+t.Pick(20, "resync")) * time.Second
					w.mu.Lock()
					h.resync = period
					w.mu.Unlock()
					s.ri.Informer().AddEventHandlerWithResyncPeriod(h, period)
					if h.slow {
						w.Probe("c18:slow-handler-with-own-resync")
					}
				}
				opLog = append(opLog, fmt.Sprintf("%d %s#%d on sub#%d", w.step, op, h.id, s.id))
			case "remove-handlers", "remove-handlers-racing":
				if len(open) == 0 {
					return
				}
				s := open[t.Pick(len(open), "sub")]
				if op == "remove-handlers-racing" {
					handFrame(s.res)
				}
				s.ri.Informer().RemoveEventHandlers()
				markRemoved(s)
				opLog = append(opLog, fmt.Sprintf("%d %s sub#%d", w.step, op, s.id))
			case "remove-handlers-midround":
				// a handler with its own resync period is in the middle of a round (parked in a
				// callback) when the handlers of its subscription are removed by another
				// goroutine: the removing call may return only when the round is over
				var cand []*c18Handler
				for _, h := range handlers {
					if h.resync > 0 && !h.slow && h.removeStep == 0 && h.sub.closeStep == 0 && len(w.Cache.View(w.inc, h.sub.res, w.step)) > 0 {
						cand = append(cand, h)
					}
				}
				for _, h := range handlers {
					// (not next to a slow handler of the same resource: see handFrame)
					for i := 0; i < len(cand); i++ {
						if h.slow && h.removeStep == 0 && h.sub.res == cand[i].sub.res {
							cand = append(cand[:i], cand[i+1:]...)
							i--
						}
					}
				}
				if len(cand) == 0 {
					return
				}
				h := cand[t.Pick(len(cand), "handler")]
				gate := make(chan struct{})
				w.mu.Lock()
				h.gate, h.parked = gate, false
				w.mu.Unlock()
				for i := 0; i < 3; i++ {
					time.Sleep(h.resync)
					synctest.Wait()
					w.mu.Lock()
					parked := h.parked
					w.mu.Unlock()
					if parked {
						break
					}
				}
				w.SimSeconds += 3 * h.resync.Seconds()
				w.mu.Lock()
				parked := h.parked
				if !parked {
					h.gate = nil
				}
				w.mu.Unlock()
				if !parked {
					close(gate)
					return
				}
				returned := make(chan struct{})
				sub := h.sub
				go func() {
					sub.ri.Informer().RemoveEventHandlers()
					markRemoved(sub)
					close(returned)
				}()
				synctest.Wait()
				w.mu.Lock()
				h.gate = nil
				w.mu.Unlock()
				close(gate)
				<-returned
				synctest.Wait()
				w.Probe("c18:handlers-removed-in-the-middle-of-a-resync-round")
				opLog = append(opLog, fmt.Sprintf("%d remove-handlers-midround sub#%d (handler#%d parked)", w.step, sub.id, h.id))
			case "close", "close-racing", "close-then-subscribe-at-once":
				if len(open) == 0 {
					return
				}
				s := open[t.Pick(len(open), "sub")]
				if op == "close-racing" {
					handFrame(s.res)
				}
				// users remove their handlers before closing (as both controllers do)
				s.ri.Informer().RemoveEventHandlers()
				markRemoved(s)
				// Close runs on a goroutine of its own: an implementation that waits for the
				// informer to wind down needs the kernel to go on serving meanwhile
				closed := make(chan struct{})
				go func() { s.ri.Close(); close(closed) }()
				returned := false
				for i := 0; i < 300 && !returned; i++ {
					w.settle()
					if i == 0 && op == "close-then-subscribe-at-once" && (s.res != ResWidget || widgetKnown) {
						// somebody else asks for the same resource while (or right after) the
						// subscription is being closed: whatever Close is still doing, the new
						// subscriber must get a working informer
						ri, err := factory.Resource(s.res.APIVersion(), s.res.Plural)
						if err != nil {
							w.Violation = &Violation{Prop: "HARNESS", Class: "subscribe-failed", Detail: err.Error()}
							return
						}
						s2 := &c18Sub{id: len(subs), res: s.res, ri: ri, openStep: w.step, inc: w.inc}
						subs = append(subs, s2)
						opLog = append(opLog, fmt.Sprintf("%d subscribe#%d %s (while #%d is being closed)", w.step, s2.id, s.res.Kind, s.id))
					}
					select {
					case <-closed:
						returned = true
					default:
						w.StepOnce(FairPolicy)
					}
				}
				if !returned {
					w.Violation = &Violation{Prop: "C18", Class: "close-never-returned", Sig: sig,
						Detail: fmt.Sprintf("Close of subscription #%d (%s) had not returned after 300 kernel steps (ops: %v)", s.id, s.res.Kind, opLog)}
					return
				}
				s.closeStep = w.step
				opLog = append(opLog, fmt.Sprintf("%d close sub#%d", w.step, s.id))
			case "object-edit", "object-create", "object-delete":
				res := resources[t.Pick(len(resources), "res")]
				name := fmt.Sprintf("o%d", t.Pick(4, "obj"))
				switch op {
				case "object-edit":
					EditObject(w, res, "ns1", name, "user", func(o Object) { setPath(o, fmt.Sprint(w.step), childContentField(res), "v") })
				case "object-create":
					w.Store.Create(res, "ns1", Object{"metadata": Object{"name": name}, childContentField(res): Object{"v": "new"}}, "user")
				case "object-delete":
					w.Store.Delete(res, "ns1", name, DeleteOpts{}, "user")
				}
				opLog = append(opLog, fmt.Sprintf("%d %s %s/%s", w.step, op, res.Kind, name))
			case "object-delete-in-watch-gap":
				// the watch of a resource breaks, an object is deleted, the history is compacted:
				// the informer learns of the deletion only from its re-list (a tombstone)
				res := resources[t.Pick(len(resources), "res")]
				name := fmt.Sprintf("o%d", t.Pick(4, "obj"))
				if w.Store.Get(res, "ns1", name) == nil {
					return
				}
				broke := false
				for _, ws := range w.OpenStreams() {
					if ws.Res == res {
						w.BreakWatch(ws)
						broke = true
					}
				}
				if !broke {
					return
				}
				w.Store.Delete(res, "ns1", name, DeleteOpts{}, "user")
				w.Store.Compact(w.Store.RV())
				for _, r := range resources {
					// (compaction is store-wide: an informer of the other resource that is just
					// starting its watch is refused, too, and lists again after its back-off)
					gapAt[r] = w.Now() + 1
				}
				w.FaultsFired["watch:410-relist-tombstone"]++
				opLog = append(opLog, fmt.Sprintf("%d object-delete-in-watch-gap %s/%s", w.step, res.Kind, name))
			case "advance":
				w.Sleep(time.Duration(1+t.Pick(40, "secs")) * time.Second)
			case "discovery-back":
				w.DiscoveryDown = nil
				w.Sleep(refresh + time.Second)
				for i := 0; rm.Get(ResWidget.APIVersion(), ResWidget.Plural) == nil && i < 300; i++ {
					w.StepOnce(FairPolicy)
				}
				if rm.Get(ResWidget.APIVersion(), ResWidget.Plural) == nil {
					w.Violation = &Violation{Prop: "HARNESS", Class: "discovery-did-not-catch-up", Detail: "the resource map still lacks widgets after a refresh period"}
					return
				}
				widgetKnown = true
				opLog = append(opLog, fmt.Sprintf("%d discovery-back", w.step))
			}
		}
		// rest means: every resource somebody is subscribed to has its watch (again)
		w.ConnectedHook = func() bool {
			for _, res := range resources {
				if count(res) > 0 && liveWatch(res) == 0 {
					return false
				}
			}
			return true
		}
		check := func(w *World, final bool) *Violation {
			// (1) one informer runs while a subscription is open, none after the last one closed
			for _, res := range resources {
				n, lw := count(res), liveWatch(res)
				if n == 0 && lw > 0 {
					return &Violation{Prop: "C18", Class: "informer-survives-last-close", Sig: sig,
						Detail: fmt.Sprintf("no subscription to %s is open, yet %d WATCH stream(s) are still live (ops: %v)", res.Plural, lw, opLog)}
				}
				if n > 0 && lw == 0 && !final && gapAt[res] != 0 && w.Now()-gapAt[res] < time.Minute {
					continue // its watch was cut a moment ago: the reflector is waiting to reconnect
				}
				if n > 0 && lw != 1 && w.Idle() {
					return &Violation{Prop: "C18", Class: "no-single-informer-while-subscribed", Sig: sig,
						Detail: fmt.Sprintf("%d subscription(s) to %s are open and the system is idle, yet %d WATCH streams are live (ops: %v)", n, res.Plural, lw, opLog)}
				}
			}
			if !final {
				return nil
			}
			// (2) what each handler received
			for _, h := range handlers {
				res := h.sub.res
				got := map[string]bool{}
				for _, e := range h.events {
					got[e.typ+" "+e.key+" "+e.rv] = true
					got["any "+e.key+" "+e.rv] = true
					if h.removeStep != 0 && (e.step > h.removeStep || (h.removeSeq != 0 && e.seq > h.removeSeq)) {
						return &Violation{Prop: "C18", Class: "event-after-removal", Sig: sig,
							Detail: fmt.Sprintf("handler#%d (sub#%d, %s) was removed at step %d but received %s %s at step %d (ops: %v)", h.id, h.sub.id, res.Kind, h.removeStep, e.typ, e.key, e.step, opLog)}
					}
				}
				// replay of what was cached when it was added
				for k, raw := range h.cachedAt {
					if h.racing && k.ns+"/"+k.name == h.raceKey {
						continue // judged below, frame by frame
					}
					o := mustParse(raw)
					if !got["any "+k.ns+"/"+k.name+" "+mstr(o, "resourceVersion")] {
						// a newer version delivered in the same step also counts: look for any event of that key at/after the add
						seen := false
						for _, e := range h.events {
							if e.key == k.ns+"/"+k.name {
								seen = true
							}
						}
						if !seen {
							return &Violation{Prop: "C18", Class: "no-replay-of-cached-object", Sig: sig,
								Detail: fmt.Sprintf("handler#%d (sub#%d, %s) was added at step %d when %s/%s was cached, but never received it (ops: %v)", h.id, h.sub.id, res.Kind, h.addStep, k.ns, k.name, opLog)}
						}
					}
				}
				// every deletion the informer learnt from a re-list while the handler was registered
				first := true
				for i := range w.Cache.log {
					ch := &w.Cache.log[i]
					if ch.Inc != h.sub.inc || ch.Res != res.Key() || !ch.List {
						continue
					}
					if first {
						first = false // the initial list
						continue
					}
					if ch.Step <= h.addStep || (h.removeStep != 0 && ch.Step >= h.removeStep) || (h.sub.closeStep != 0 && ch.Step >= h.sub.closeStep) {
						continue
					}
					before, after := w.Cache.View(h.sub.inc, res, ch.Step-1), w.Cache.View(h.sub.inc, res, ch.Step)
					for _, k := range viewKeys(before) {
						if _, still := after[k]; still {
							continue
						}
						found := false
						for _, e := range h.events {
							if e.typ == "delete" && e.key == k.ns+"/"+k.name && e.step >= ch.Step {
								found = true
							}
						}
						if !found {
							return &Violation{Prop: "C18", Class: "event-not-delivered", Sig: sig,
								Detail: fmt.Sprintf("handler#%d (sub#%d, %s), registered from step %d: %s/%s was gone from the re-list of step %d, and the handler was never told of the deletion (ops: %v)", h.id, h.sub.id, res.Kind, h.addStep, k.ns, k.name, ch.Step, opLog)}
						}
						w.Probe("c18:deletion-learnt-from-relist-delivered")
					}
				}
				// every frame delivered to this process for the resource while the handler was registered
				for i := range w.Cache.log {
					ch := &w.Cache.log[i]
					if ch.Inc != h.sub.inc || ch.Res != res.Key() || ch.List || ch.Step < h.addStep || (ch.Step == h.addStep && !h.racing) {
						continue
					}
					if ch.Step == h.addStep && (h.raceKey == "" || i != h.raceIdx) {
						continue
					}
					if h.removeStep != 0 && ch.Step >= h.removeStep {
						continue
					}
					if h.sub.closeStep != 0 && ch.Step >= h.sub.closeStep {
						continue
					}
					key := ch.Key.ns + "/" + ch.Key.name
					if ch.Raw == nil {
						found := false
						heard := false
						for _, e := range h.events {
							if e.key == key && e.sameObjs && e.step == h.addStep {
								heard = true // the initial replay still listed the object
							}
							if e.typ == "delete" && e.key == key && e.step >= ch.Step {
								found = true
							}
						}
						if ch.Step == h.addStep && !heard {
							continue // deleted before the replay listed the cache: nothing to tell
						}
						if !found {
							return &Violation{Prop: "C18", Class: "event-not-delivered", Sig: sig,
								Detail: fmt.Sprintf("handler#%d (sub#%d, %s), registered from step %d: the DELETED frame of %s delivered at step %d never reached it (ops: %v)", h.id, h.sub.id, res.Kind, h.addStep, key, ch.Step, opLog)}
						}
						continue
					}
					rv := mstr(mustParse(ch.Raw), "resourceVersion")
					if !got["any "+key+" "+rv] {
						return &Violation{Prop: "C18", Class: "event-not-delivered", Sig: sig,
							Detail: fmt.Sprintf("handler#%d (sub#%d, %s), registered from step %d to %d: the frame of %s rv=%s delivered at step %d never reached it (ops: %v)", h.id, h.sub.id, res.Kind, h.addStep, h.removeStep, key, rv, ch.Step, opLog)}
					}
				}
			}
			return nil
		}
		var stages []Stage
		for i := 0; i < nOps; i++ {
			stages = append(stages, Stage{Name: fmt.Sprintf("op%d", i), Do: doOp,
				Policy: &Policy{Name: "interleave", Shuffle: true}, Steps: 1 + t.Pick(6, "gap"),
				Check: func(w *World) *Violation { return check(w, false) }})
			if t.Pick(2, "rest") == 1 {
				stages = append(stages, Stage{Name: "rest", Quiet: true, Window: 500 * time.Millisecond, MaxSteps: 500, Check: func(w *World) *Violation { return check(w, false) }})
			}
		}
		stages = append(stages, Stage{Name: "final", Quiet: true, Window: time.Second, MaxSteps: 1000, Check: func(w *World) *Violation {
			sort.Strings(nil)
			return check(w, true)
		}})
		w.Stages = stages
	}}
}
