package sim

import (
	"errors"
	"fmt"
	"net/http"
	"strings"
	"sync"
	"time"

	metav1 "k8s.io/apimachinery/pkg/apis/meta/v1"
	"k8s.io/apimachinery/pkg/apis/meta/v1/unstructured"

	"metacontroller/pkg/apis/metacontroller/v1alpha1"
	"metacontroller/pkg/controller/common"
	compositev1 "metacontroller/pkg/controller/composite/api/v1"
	"metacontroller/pkg/hooks"
)

type c19Call struct {
	id      int
	parent  string // parent identity (cache key): name
	client  int
	done    bool
	err     error
	got     int64 // status.call decoded from the accepted answer (-1 none)
	after   int
	tooMany bool
	// what the scripted webhook did (filled in when it answers)
	answered    bool
	behaviour   string
	sentINM     string
	expectOK    bool
	expectCall  int64 // status.call the accepted body must carry
	expect429   int   // -1 = not a 429
	parkTime    time.Duration
	expectKnown bool
	mayFail     bool
}

// C19Scenario: hook transport — only 200 / valid 304 is an answer; cached bodies match their ETag.
// The real executors of pkg/hooks run against a scripted webhook; 2-3 client
// goroutines issue calls about 1-2 parents and the kernel interleaves their round trips.
func C19Scenario() *Scenario {
	return &Scenario{Prop: "C19", Init: func(w *World) {
		t := w.T
		etag := t.Pick(4, "etag") != 0
		strict := t.Pick(3, "strict") == 2
		timeoutS := 2
		cacheTTL := []int{30, 3}[t.Pick(2, "cachettl")]
		nClients := 1 + t.Pick(3, "clients")
		nParents := 1 + t.Pick(2, "parents")
		perClient := 3 + t.Pick(5, "calls")
		earlierTimeout := t.Pick(3, "earlier-executor-with-longer-timeout") == 2
		w.Cfg["earlierExecutorWithLongerTimeout"] = fmt.Sprint(earlierTimeout)
		sig := map[string]string{"etag": fmt.Sprint(etag), "mode": map[bool]string{true: "strict", false: "loose"}[strict]}
		w.Cfg["etag"], w.Cfg["mode"], w.Cfg["clients"] = sig["etag"], sig["mode"], fmt.Sprint(nClients)
		var mu sync.Mutex
		var calls []*c19Call
		byID := map[int]*c19Call{}
		etagBody := map[string]int64{} // ETag -> status.call of the body it was sent with
		etagAt := map[string]time.Duration{}
		etagBad := map[string]bool{}     // the body sent with this ETag has an unknown field
		lastEtagStep := map[string]int{} // parent -> kernel step of the last answer that carried an ETag
		lastEtag := map[string]string{}  // parent -> the ETag that answer carried
		etagReused := map[string]bool{}  // ETags that went out with more than one body
		nextID := 0
		allDone := func() bool {
			mu.Lock()
			defer mu.Unlock()
			if len(calls) < nClients*perClient {
				return false
			}
			for _, c := range calls {
				if !c.done {
					return false
				}
			}
			return true
		}
		w.OnBoot = func(w *World) {
			wh := &v1alpha1.Webhook{}
			u := hookURL("c19", "sync", 1)
			wh.URL = &u
			wh.Timeout = &metav1.Duration{Duration: time.Duration(timeoutS) * time.Second}
			if etag {
				en, to, cl := true, int32(cacheTTL), int32(60)
				wh.Etag = &v1alpha1.WebhookEtagConfig{Enabled: &en, CacheTimeoutSeconds: &to, CacheCleanupSeconds: &cl}
			}
			if strict {
				m := v1alpha1.ResponseUnmarshallModeStrict
				wh.ResponseUnmarshallMode = &m
			}
			// the code under test is the HTTP client: a genuine http.Transport over
			// in-memory connections, so that its timeouts are net/http's own
			http.DefaultTransport = PipeTransport(w)
			if earlierTimeout {
				// the controller's spec used to give this very hook (same controller, same
				// URL) a much longer time limit: an executor was built for it then. The one
				// under test is built after the edit and must go by its own limit.
				old := *wh
				old.Timeout = &metav1.Duration{Duration: 45 * time.Second}
				if _, err := hooks.NewHook(&v1alpha1.Hook{Webhook: &old}, fmt.Sprintf("c19-%d", w.Incs), common.CompositeController, common.SyncHook); err != nil {
					panic(err)
				}
			}
			hook, err := hooks.NewHook(&v1alpha1.Hook{Webhook: wh}, fmt.Sprintf("c19-%d", w.Incs), common.CompositeController, common.SyncHook)
			if err != nil {
				panic(err)
			}
			for c := 0; c < nClients; c++ {
				c := c
				go func() {
					for i := 0; i < perClient; i++ {
						mu.Lock()
						nextID++
						call := &c19Call{id: nextID, client: c, parent: fmt.Sprintf("p%d", (c+i)%nParents), got: -1, expect429: -1}
						calls = append(calls, call)
						byID[call.id] = call
						mu.Unlock()
						parent := &unstructured.Unstructured{Object: map[string]interface{}{
							"apiVersion": "ctl.example.com/v1", "kind": "Thing",
							"metadata": map[string]interface{}{"name": call.parent, "namespace": "ns1"},
							"spec":     map[string]interface{}{"c": int64(call.id)},
						}}
						req := compositev1.NewRequestBuilder().WithParent(parent).Build()
						var resp compositev1.CompositeHookResponse
						err := hook.Call(req, &resp)
						mu.Lock()
						call.err = err
						var tm *hooks.TooManyRequestError
						if errors.As(err, &tm) {
							call.tooMany, call.after = true, tm.AfterSecond
						}
						if err == nil {
							if v, ok := resp.Status["call"]; ok {
								switch x := v.(type) {
								case int64:
									call.got = x
								case float64:
									call.got = int64(x)
								}
							}
						}
						call.done = true
						mu.Unlock()
					}
				}()
			}
		}
		w.HookProgram = func(w *World, h *HookRec) HookAnswer {
			mu.Lock()
			defer mu.Unlock()
			id := int(getInt(h.Req, "parent", "spec", "c"))
			call := byID[id]
			if call == nil {
				return HookAnswer{Code: 500}
			}
			call.answered = true
			call.sentINM = h.Header.Get("If-None-Match")
			call.parkTime = h.ParkTime
			body := func(extra string) []byte {
				return []byte(fmt.Sprintf(`{"status":{"call":%d},"children":[]%s}`, id, extra))
			}
			hdr := map[string]string{}
			behaviours := []string{"unknown-field-etag", "200", "200-etag", "304", "412", "429-num", "429-date", "429-none", "429-junk", "other", "unknown-field", "duplicate-field", "bad-json", "stall", "refused", "200-etag", "200-etag-reused", "other-etag", "slow-body", "429-cut", "200-etag-cut", "200-etag-weak-twin"}
			b := behaviours[w.T.Pick(len(behaviours), "behaviour")]
			call.behaviour = b
			call.expectKnown = true
			w.FaultsFired["webhook:"+b]++
			accept := func(c int64) { call.expectOK, call.expectCall = true, c }
			switch b {
			case "200":
				if !strict {
					accept(int64(id))
				} else {
					accept(int64(id)) // a well-formed response is accepted in strict mode too
				}
				return HookAnswer{Code: 200, Body: body("")}
			case "200-etag":
				e := fmt.Sprintf("e%d", id)
				etagBody[e] = int64(id)
				etagAt[e] = w.Now()
				lastEtagStep[call.parent] = w.step
				lastEtag[call.parent] = e
				hdr["ETag"] = e
				accept(int64(id))
				return HookAnswer{Code: 200, Header: hdr, Body: body("")}
			case "200-etag-weak-twin":
				// the weak form of the validator last issued for this parent (W/<tag>), with
				// another body: to the client a different ETag altogether - a 304 to the
				// strong one must never be answered from this entry, nor the other way round
				e := lastEtag[call.parent]
				if e == "" || etagBad[e] || strings.HasPrefix(e, "W/") {
					e = fmt.Sprintf("e%d", id)
				} else {
					e = "W/" + e
				}
				if _, again := etagBody[e]; again {
					etagReused[e] = true
				}
				etagBody[e] = int64(id)
				etagAt[e] = w.Now()
				lastEtag[call.parent] = e
				lastEtagStep[call.parent] = w.step
				hdr["ETag"] = e
				accept(int64(id))
				return HookAnswer{Code: 200, Header: hdr, Body: body("")}
			case "200-etag-reused":
				// a weak validator: the ETag last issued for this parent comes again, on a
				// 200 with another body. A 200 is an answer: its own body is what counts.
				e := lastEtag[call.parent]
				if e == "" || etagBad[e] {
					e = fmt.Sprintf("e%d", id)
				} else {
					etagReused[e] = true
				}
				etagBody[e] = int64(id)
				etagAt[e] = w.Now()
				lastEtag[call.parent] = e
				lastEtagStep[call.parent] = w.step
				hdr["ETag"] = e
				accept(int64(id))
				return HookAnswer{Code: 200, Header: hdr, Body: body("")}
			case "unknown-field-etag":
				e := fmt.Sprintf("e%d", id)
				etagBody[e] = int64(id)
				etagAt[e] = w.Now()
				etagBad[e] = true
				lastEtagStep[call.parent] = w.step
				hdr["ETag"] = e
				if !strict {
					accept(int64(id))
				}
				return HookAnswer{Code: 200, Header: hdr, Body: body(`,"surprise":{"x":1}`)}
			case "304", "412":
				code := 304
				if b == "412" {
					code = 412
				}
				if etag && call.sentINM != "" {
					if c, ok := etagBody[call.sentINM]; ok && !(strict && etagBad[call.sentINM]) {
						accept(c) // the body cached together with exactly the ETag that was sent
						if etagReused[call.sentINM] {
							call.expectKnown = false // several bodies have gone out under this ETag: which one the client holds depends on the interleaving
						}
						if w.Now()-etagAt[call.sentINM] > time.Duration(cacheTTL)*time.Second-time.Second {
							call.expectKnown = false // the client's cache entry may legitimately have expired meanwhile
						}
						if lastEtagStep[call.parent] > h.ParkStep {
							// another call replaced the cache entry after this request was sent:
							// the body for the sent ETag is gone, failing is the only other correct outcome
							call.mayFail = true
						}
					}
				}
				if code == 412 {
					// a precondition failure usually comes with an error document; it is the
					// status that says "use what you have", never this body
					return HookAnswer{Code: code, Body: []byte(`{"status":{"call":-412},"children":[]}`)}
				}
				return HookAnswer{Code: code, Body: nil}
			case "429-num":
				call.expect429 = 3 + id%5
				return HookAnswer{Code: 429, Header: map[string]string{"Retry-After": fmt.Sprint(call.expect429)}}
			case "429-date":
				d := 4 + id%7
				call.expect429 = d
				when := time.Now().Add(time.Duration(d) * time.Second).UTC().Format(time.RFC1123)
				return HookAnswer{Code: 429, Header: map[string]string{"Retry-After": when}}
			case "429-none":
				call.expect429 = 0
				return HookAnswer{Code: 429}
			case "429-junk":
				call.expect429 = 0
				return HookAnswer{Code: 429, Header: map[string]string{"Retry-After": "soon"}}
			case "other":
				codes := []int{201, 202, 204, 301, 400, 403, 404, 500, 502, 503}
				return HookAnswer{Code: codes[w.T.Pick(len(codes), "othercode")], Body: body("")}
			case "other-etag":
				// a failure that looks like an answer: ETag header and a well-formed body
				// under a status that is not an answer. Nothing of it may be kept.
				codes := []int{500, 503, 400, 202}
				hdr["ETag"] = fmt.Sprintf("x%d", id)
				return HookAnswer{Code: codes[w.T.Pick(len(codes), "othercode")], Header: hdr, Body: body("")}
			case "unknown-field":
				if !strict {
					accept(int64(id))
				}
				return HookAnswer{Code: 200, Body: body(`,"surprise":{"x":1}`)}
			case "duplicate-field":
				if !strict {
					accept(int64(id))
				}
				return HookAnswer{Code: 200, Body: []byte(fmt.Sprintf(`{"status":{"call":%d},"children":[],"children":[]}`, id))}
			case "bad-json":
				return HookAnswer{Code: 200, Body: []byte(`{"status":{"call":`)}
			case "429-cut":
				// the advertised delay is in the headers; that the body breaks off changes nothing
				call.expect429 = 3 + id%5
				return HookAnswer{Code: 429, Header: map[string]string{"Retry-After": fmt.Sprint(call.expect429), cutBodyHeader: "1"}, Body: body(`,"note":"rate limited, come back later, rate limited, come back later"`)}
			case "200-etag-cut":
				// an answer whose body breaks off is no answer, and nothing of it may be kept:
				// its ETag never becomes one whose body the client holds
				hdr["ETag"] = fmt.Sprintf("y%d", id)
				hdr[cutBodyHeader] = "1"
				return HookAnswer{Code: 200, Header: hdr, Body: body(`,"resyncAfterSeconds":0`)}
			case "slow-body":
				// status line and headers at once, the body only after the time limit of the
				// call has passed: not an answer within the time limit
				return HookAnswer{Code: 200, Header: map[string]string{slowBodyHeader: fmt.Sprint(3 * timeoutS)}, Body: body("")}
			case "stall":
				return HookAnswer{Stall: true}
			case "refused":
				return HookAnswer{Err: true}
			}
			return HookAnswer{Code: 500}
		}
		pol := &Policy{Name: "interleave", Shuffle: true, AdvanceProb: 150, HardAdvance: true}
		w.Stages = []Stage{{Name: "calls", Policy: pol, Until: func(w *World) bool { return allDone() }, MaxSteps: 3000,
			OnBudget: func(w *World) *Violation {
				return &Violation{Prop: "C19", Class: "call-never-returned", Sig: sig, Detail: "a hook call did not return although every round trip was answered or timed out"}
			},
			Check: func(w *World) *Violation {
				mu.Lock()
				defer mu.Unlock()
				report := func(v *Violation) *Violation {
					if w.Known(v) {
						return nil
					}
					return v
				}
				for _, c := range calls {
					if c.answered && c.done && c.err == nil && c.got == -412 {
						// whatever the client still holds: the document that came with a 412 is
						// never the answer
						if v := report(&Violation{Prop: "C19", Class: "body-of-a-412-used-as-answer", Sig: sig,
							Detail: fmt.Sprintf("call %d about %s (client %d): webhook answered 412 to If-None-Match %q and the call succeeded with the 412's own document", c.id, c.parent, c.client, c.sentINM)}); v != nil {
							return v
						}
					}
					if !c.answered || !c.done || !c.expectKnown {
						continue
					}
					what := fmt.Sprintf("call %d about %s (client %d): webhook behaviour %s, If-None-Match sent %q", c.id, c.parent, c.client, c.behaviour, c.sentINM)
					s2 := copySig(sig)
					s2["behaviour"] = c.behaviour
					switch {
					case c.expect429 >= 0:
						if !c.tooMany {
							if v := report(&Violation{Prop: "C19", Class: "429-not-reported-as-retry", Sig: s2, Detail: fmt.Sprintf("%s: result %v", what, c.err)}); v != nil {
								return v
							}
						} else if c.after != c.expect429 {
							if v := report(&Violation{Prop: "C19", Class: "wrong-retry-after", Sig: s2, Detail: fmt.Sprintf("%s: retry after %d s, expected %d s", what, c.after, c.expect429)}); v != nil {
								return v
							}
						}
					case c.expectOK:
						if c.err != nil && c.mayFail {
							w.Probe("c19:304-after-concurrent-replacement-failed")
						} else if c.err != nil {
							if v := report(&Violation{Prop: "C19", Class: "valid-answer-rejected", Sig: s2, Detail: fmt.Sprintf("%s: %v", what, c.err)}); v != nil {
								return v
							}
						} else if c.got != c.expectCall {
							if v := report(&Violation{Prop: "C19", Class: "wrong-body-used", Sig: s2,
								Detail: fmt.Sprintf("%s: the call returned the body of call %d, the body that belongs to the ETag sent is that of call %d", what, c.got, c.expectCall)}); v != nil {
								return v
							}
						}
					default:
						if c.err == nil {
							if v := report(&Violation{Prop: "C19", Class: "invalid-answer-accepted", Sig: s2, Detail: fmt.Sprintf("%s: accepted with body of call %d", what, c.got)}); v != nil {
								return v
							}
						}
					}
				}
				_ = strings.Join
				return nil
			}}}
	}}
}
