package sim

import (
	"fmt"
)

// c06Lagging is the second family of C06: the same strategies, but with caches that
// lag, several parents and workers, and other writers at work. The relation
// between observed and desired is not known by construction here, so the oracle
// keeps to what the strategy forbids under every schedule:
//   - OnDelete, unset, Recreate, RollingRecreate and unknown methods never change a
//     child in place (a PUT that touches more than ownerReferences);
//   - InPlace, RollingInPlace, OnDelete, unset and unknown methods never delete a child
//     that every answer of that sync still lists;
//   - no method changes, in place, a child that is pending deletion (the update
//     carries the observed resourceVersion, so a stale view cannot get through).
func c06Lagging(w *World) {
	t := w.T
	methods := []string{"InPlace", "", "OnDelete", "Recreate", "RollingInPlace", "RollingRecreate", "Sideways"}
	s := NewCompositeSetup(w, GenOpts{Methods: methods, MaxWorkers: 2, MaxParents: 2, MaxReplicas: 3, GenSel: 0, Finalize: 0})
	w.Cfg["family"] = "lagging-caches"
	b := &EnvBudget{Left: 6 + t.Pick(8, "envbudget")}
	w.EnvOps = func(w *World) []EnvOp {
		if b.Left <= 0 {
			return nil
		}
		ops := s.ParentEdits(b)
		ops = append(ops, s.ParentEdits(b)...)
		for _, op := range s.ChildChaos(b) {
			ops = append(ops, op)
		}
		// somebody deletes a child that a finalizer of theirs keeps around
		for _, c := range s.allChildren() {
			c := c
			if metaRO(c)["deletionTimestamp"] != nil || len(ownerRefsOf(c)) == 0 {
				continue
			}
			res := resOf(w, c)
			ops = append(ops, EnvOp{"delete-held " + res.Kind + "/" + mstr(c, "name"), func(w *World) {
				b.take()
				EditObject(w, res, mstr(c, "namespace"), mstr(c, "name"), "user", func(o Object) {
					setPath(o, []interface{}{"example.com/hold"}, "metadata", "finalizers")
				})
				w.Store.Delete(res, mstr(c, "namespace"), mstr(c, "name"), DeleteOpts{}, "user")
			}})
		}
		return ops
	}
	pol := &Policy{Name: "lagging", Shuffle: true, HoldWatch: 150 + 150*t.Pick(4, "hold"), EnvProb: 150, AdvanceProb: 20}
	w.Cfg["policy"] = fmt.Sprintf("lagging hold=%d", pol.HoldWatch)
	w.Stages = []Stage{
		{Name: "chaos", Policy: pol, Steps: 200 + 100*t.Pick(3, "len")},
		{Name: "drain", Quiet: true, CheckOnBudget: true, MaxSteps: 3000, Do: func(w *World) { b.Left = 0 },
			Check: func(w *World) *Violation { return c06NeverOracle(w, s) }},
	}
}

func c06NeverOracle(w *World, s *Setup) *Violation {
	report := func(v *Violation) *Violation {
		if w.Known(v) {
			return nil
		}
		return v
	}
	noInPlace := map[string]bool{"": true, "OnDelete": true, "Recreate": true, "RollingRecreate": true, "Sideways": true}
	noDelete := map[string]bool{"": true, "OnDelete": true, "InPlace": true, "RollingInPlace": true, "Sideways": true}
	for _, sy := range w.Syncs("parent") {
		// what every answer of this sync lists
		var listed map[childID]int
		answers := 0
		for _, h := range sy.Hooks {
			if h.Code != 200 || (h.Kind != "sync" && h.Kind != "finalize") {
				continue
			}
			desired, _, err := desiredFromResponse(w, h.RespBody, "children", mstr(getMap(h.Req, "parent"), "namespace"))
			if err != nil {
				continue
			}
			if listed == nil {
				listed = map[childID]int{}
			}
			answers++
			for id := range desired {
				listed[id]++
			}
		}
		for _, q := range sy.Reqs {
			rule := s.Cfg.Rule(q.Res)
			if rule == nil || !accepted(q) || q.Pre == nil {
				continue
			}
			sig := map[string]string{"controller": "composite", "method": rule.Method, "family": "lagging-caches"}
			pre := mustParse(q.Pre)
			where := fmt.Sprintf("sync started at step %d, method %q: %s", sy.StartStep, rule.Method, q.Short())
			switch q.Verb {
			case "update", "patch":
				if q.Sub != "" || q.Post == nil {
					continue
				}
				post := mustParse(q.Post)
				if sameExceptOwnership(pre, post) {
					continue
				}
				w.Probe("c06:content-update-under-lag")
				if noInPlace[rule.Method] {
					if v := report(&Violation{Prop: "C06", Class: "in-place-update-under-non-updating-method", Sig: sig, Step: q.Step,
						Detail: where + " changed the child in place"}); v != nil {
						return v
					}
				}
				if metaRO(pre)["deletionTimestamp"] != nil {
					if v := report(&Violation{Prop: "C06", Class: "update-of-child-pending-deletion", Sig: sig, Step: q.Step,
						Detail: where + " changed a child that was pending deletion"}); v != nil {
						return v
					}
				}
			case "delete":
				w.Probe("c06:delete-under-lag")
				id := childID{q.Res, q.NS, q.Name}
				if noDelete[rule.Method] && answers > 0 && listed[id] == answers && metaRO(pre)["deletionTimestamp"] == nil {
					if v := report(&Violation{Prop: "C06", Class: "delete-of-desired-child-under-non-recreating-method", Sig: sig, Step: q.Step,
						Detail: where + " deleted a child that every answer of this sync lists"}); v != nil {
						return v
					}
				}
			}
		}
	}
	return nil
}
