package sim

import (
	"fmt"
	"sort"
	"strings"
	"time"
)

// C14Scenario: every change that can alter a parent's reconciliation enqueues that parent.
// The world is brought to rest, then one change at a time is made (one watch event
// or a short burst for one object) and the run continues to rest again; the oracle
// compares which parents were synced - and which queue items were added - with
// what the statement requires and forbids.
func C14Scenario() *Scenario {
	return &Scenario{Prop: "C14", Init: func(w *World) {
		if w.T.Pick(4, "ckind") == 3 {
			c14Decorator(w)
			return
		}
		c14Composite(w, "C14", false)
	}}
}

// c14Composite is the round structure for a composite controller with a customize
// hook. C15 reuses it (relatedOnly) for its clause "every object that appears in a
// parent's related map also wakes that parent when it changes".
func c14Composite(w *World, prop string, relatedOnly bool) {
	{
		t := w.T
		s, _ := newCustomizeSetup(w)
		cfg := s.Cfg
		cfg.LabelSelector = Object{"matchLabels": Object{"managed": "yes"}}
		cfg.IgnoreStatus = t.Pick(2, "ignorestatus") == 1
		cfg.ResyncSeconds = 0
		EditObject(w, ResCompositeCtl, "", cfg.Name, "setup", func(o Object) { o["spec"] = cfg.Object()["spec"] })
		w.ResyncHint = 0
		for i, p := range s.Parents {
			if i == 0 || t.Pick(3, "unmanaged") != 2 {
				EditObject(w, p.Res, p.NS, p.Name, "setup", func(o Object) { setPath(o, "yes", "metadata", "labels", "managed") })
			}
			// valid rule sets only: a parent with invalid rules fails every sync by design
			EditObject(w, p.Res, p.NS, p.Name, "setup", func(o Object) {
				setPath(o, []interface{}{
					Object{"apiVersion": "v1", "resource": "configmaps", "labelSelector": Object{"matchLabels": Object{"rel": "a"}}},
					Object{"apiVersion": "v1", "resource": "secrets", "names": []interface{}{"r0"}},
				}, "spec", "related")
			})
		}
		if cfg.Finalize && t.Pick(2, "holdfinal") == 1 {
			// a finalize hook that keeps the children and does not finish: a parent that
			// was relabelled out of the selector, or deleted, stays around with the
			// finalizer, and everything that woke it before has to wake it still
			s.TP.FinalizeHold = true
			for _, p := range s.Parents {
				EditObject(w, p.Res, p.NS, p.Name, "setup", func(o Object) { setPath(o, true, "spec", "template", "hold") })
			}
			w.Cfg["finalize"] = "never-finished"
		}
		failFor := "" // the parent for which customize calls made from event handlers fail at present
		s.Progs["cc"].Raw = func(w *World, h *HookRec) *HookAnswer {
			// (a pure function of the call and the scenario state: such calls are answered on
			// the calling goroutine, the tape is not theirs to draw from)
			if h.Kind == "customize" && h.Sync < 0 && failFor != "" && mstr(getMap(h.Req, "parent"), "name") == failFor {
				return &HookAnswer{Code: 500, Body: []byte("scripted: customize hook unavailable")}
			}
			return nil
		}
		sig := copySig(s.Sig)
		sig["ignoreStatusChanges"] = fmt.Sprint(cfg.IgnoreStatus)
		w.Cfg["ignoreStatus"] = fmt.Sprint(cfg.IgnoreStatus)
		queue := cfg.QueueName()
		rounds := 6 + t.Pick(6, "rounds")
		stages := []Stage{{Name: "rest", Quiet: true, MaxSteps: 4000}}
		type expect struct {
			name      string
			mustSync  map[string]bool // parent "ns/name" that must be synced (hook call) in this round
			mustAdd   bool            // at least one queue add (deleted parents cannot be synced)
			mustNot   map[string]bool // parents that must not be synced
			noAdd     bool            // no item may be added at all
			startStep int
		}
		pkey := func(p ParentRef) string { return p.NS + "/" + p.Name }
		managed := func(o Object) bool {
			return o != nil && (selectorMatches(cfg.LabelSelector, labelsOf(o)) || hasFinalizer(o, cfg.FinalizerName()))
		}
		for r := 0; r < rounds; r++ {
			var ex *expect
			stages = append(stages, Stage{Name: fmt.Sprintf("round%d", r), Quiet: true, MaxSteps: 3000,
				Do: func(w *World) {
					ex = &expect{mustSync: map[string]bool{}, mustNot: map[string]bool{}, startStep: w.step}
					failFor = ""
					events := []string{"parent-spec", "parent-status", "parent-labels", "parent-unmanaged-edit", "child-edit", "child-delete", "child-status",
						"orphan-create", "orphan-relabel", "foreign-child-edit", "wrong-uid-child", "wrong-kind-child", "related-edit", "related-relabel-away", "related-delete", "related-unselected-edit", "parent-create", "parent-delete",
						"other-version-child", "related-edit-after-expiry", "parent-unmanage", "related-edit-after-expiry-customize-fails-for-another"}
					if relatedOnly {
						events = []string{"related-edit", "related-relabel-away", "related-delete", "related-edit-after-expiry", "related-edit-after-expiry-customize-fails-for-another"}
					}
					ev := events[w.T.Pick(len(events), "event")]
					p := s.Parents[w.T.Pick(len(s.Parents), "which")]
					po := p.Get(w)
					if s.TP.FinalizeHold && !relatedOnly {
						// a parent that lingers with the finalizer only (relabelled away or being
						// deleted): half of the time the next event is about one of its children
						for _, q := range s.Parents {
							qo := q.Get(w)
							if qo != nil && hasFinalizer(qo, cfg.FinalizerName()) && (!selectorMatches(cfg.LabelSelector, labelsOf(qo)) || metaRO(qo)["deletionTimestamp"] != nil) && w.T.Pick(2, "lingering") == 1 {
								p, po = q, qo
								ev = []string{"child-edit", "child-delete", "child-status"}[w.T.Pick(3, "lingerev")]
								w.Probe("c14:child-event-of-a-parent-kept-by-its-finalizer")
								break
							}
						}
					}
					ex.name = ev
					w.FaultsFired["event:"+ev]++
					k0 := cfg.Children[0].Res
					others := func() {
						for _, q := range s.Parents {
							if q != p {
								ex.mustNot[pkey(q)] = true
							}
						}
					}
					ownedChild := func() Object {
						if po == nil {
							return nil
						}
						for _, k := range ControlledBy(w.Store, k0, mstr(po, "uid")) {
							if c := controllerOf(k); c != nil && c.Kind == p.Res.Kind && c.Name == p.Name {
								return k
							}
						}
						return nil
					}
					// deletions may be seen only through a relist (DeletedFinalStateUnknown tombstone):
					// the watch of that resource breaks, the object is deleted, history is compacted
					tombstone := func(res *Resource, del func()) {
						if w.T.Pick(3, "tombstone") != 2 {
							del()
							return
						}
						for _, ws := range w.OpenStreams() {
							if ws.Res == res {
								w.BreakWatch(ws)
							}
						}
						del()
						w.Store.Compact(w.Store.RV())
						w.FaultsFired["watch:410-relist-tombstone"]++
					}
					switch ev {
					case "parent-spec":
						if EditObject(w, p.Res, p.NS, p.Name, "user", func(o Object) { setPath(o, fmt.Sprintf("n%d", w.step), "spec", "note") }) && managed(po) {
							ex.mustSync[pkey(p)] = true
						}
					case "parent-status":
						if po != nil {
							EditStatus(w, p.Res, p.NS, p.Name, "other", func(o Object) { setPath(o, fmt.Sprint(w.step), "status", "foreign") })
							if managed(po) {
								if cfg.IgnoreStatus {
									if metaRO(po)["deletionTimestamp"] == nil {
										ex.mustNot[pkey(p)] = true
										ex.noAdd = true
									}
								} else {
									ex.mustSync[pkey(p)] = true
								}
							}
						}
					case "parent-labels":
						if EditObject(w, p.Res, p.NS, p.Name, "user", func(o Object) { setPath(o, fmt.Sprint(w.step), "metadata", "annotations", "touched") }) && managed(po) {
							ex.mustSync[pkey(p)] = true
						}
					case "parent-unmanage":
						// relabelled out of the controller's selector, not deleted: a parent that still
						// carries the finalizer has to go through the finalize hook
						if po != nil && selectorMatches(cfg.LabelSelector, labelsOf(po)) && metaRO(po)["deletionTimestamp"] == nil {
							carries := hasFinalizer(po, cfg.FinalizerName())
							EditObject(w, p.Res, p.NS, p.Name, "user", func(o Object) { setPath(o, "no", "metadata", "labels", "managed") })
							if carries {
								ex.mustSync[pkey(p)] = true
							}
						}
					case "parent-unmanaged-edit":
						if po != nil && !managed(po) {
							EditObject(w, p.Res, p.NS, p.Name, "user", func(o Object) { setPath(o, fmt.Sprintf("n%d", w.step), "spec", "note") })
							ex.mustNot[pkey(p)] = true
							ex.noAdd = true
						}
					case "child-edit", "child-status", "child-delete":
						c := ownedChild()
						if c != nil && managed(po) {
							switch ev {
							case "child-edit":
								otherVersion := w.T.Pick(3, "owner-ref-other-version") == 2
								EditObject(w, k0, mstr(c, "namespace"), mstr(c, "name"), "user", func(o Object) {
									setPath(o, fmt.Sprint(w.step), childContentField(k0), "foreign")
									if otherVersion {
										ownerRefToOtherVersion(w, o, mstr(po, "uid"))
									}
								})
							case "child-status":
								EditStatus(w, k0, mstr(c, "namespace"), mstr(c, "name"), "status", func(o Object) { setPath(o, fmt.Sprint(w.step), "status", "phase") })
							case "child-delete":
								EditObject(w, k0, mstr(c, "namespace"), mstr(c, "name"), "user", func(o Object) { delete(meta(o), "finalizers") })
								tombstone(k0, func() { w.Store.Delete(k0, mstr(c, "namespace"), mstr(c, "name"), DeleteOpts{}, "user") })
							}
							ex.mustSync[pkey(p)] = true
							others()
						}
					case "orphan-create", "orphan-relabel":
						if po != nil && managed(po) && metaRO(po)["deletionTimestamp"] == nil {
							idx := 7 + r
							ns := s.childNSFor(po, k0, idx)
							c := s.TP.desiredChild(po, k0, fmt.Sprintf("%s-orphan%d", p.Name, idx), ns, idx)
							if cfg.GenerateSelector {
								setPath(c, mstr(po, "uid"), "metadata", "labels", "controller-uid")
							}
							if ev == "orphan-relabel" {
								match := getMap(c, "metadata", "labels")
								setPath(c, Object{"app": "nobody"}, "metadata", "labels")
								if _, e := w.Store.Create(k0, ns, c, "user"); e == nil {
									// first an orphan that matches nobody (must wake nobody), relabelled later in the round
									EditObject(w, k0, ns, mstr(c, "name"), "user", func(o Object) { setPath(o, match, "metadata", "labels") })
									ex.mustSync[pkey(p)] = true
								}
							} else if _, e := w.Store.Create(k0, ns, c, "user"); e == nil {
								ex.mustSync[pkey(p)] = true
							}
						}
					case "foreign-child-edit":
						if po != nil {
							ns := s.childNSFor(po, k0, 0)
							name := fmt.Sprintf("%s-foreign-r%d", p.Name, r)
							c := s.TP.desiredChild(po, k0, name, ns, 0)
							setPath(c, []interface{}{Object{"apiVersion": "v1", "kind": "Other", "name": "x", "uid": "uid-other", "controller": true}}, "metadata", "ownerReferences")
							w.Store.Create(k0, ns, c, "user")
							for _, q := range s.Parents {
								ex.mustNot[pkey(q)] = true
							}
							ex.noAdd = true
						}
					case "wrong-uid-child", "wrong-kind-child":
						if po != nil {
							ns := s.childNSFor(po, k0, 0)
							name := fmt.Sprintf("%s-%s-r%d", p.Name, ev, r)
							c := s.TP.desiredChild(po, k0, name, ns, 0)
							ref := ownerRefObj(po, true)
							if ev == "wrong-uid-child" {
								ref["uid"] = "uid-of-an-earlier-incarnation"
							} else {
								ref["kind"] = "SomethingElse"
							}
							setPath(c, []interface{}{ref}, "metadata", "ownerReferences")
							w.Store.Create(k0, ns, c, "user")
							for _, q := range s.Parents {
								ex.mustNot[pkey(q)] = true
							}
							ex.noAdd = true
						}
					case "other-version-child":
						// a child controlled by the parent (kind, name, UID) whose owner reference
						// was written through another served version of the parent's API group
						if po != nil && managed(po) && metaRO(po)["deletionTimestamp"] == nil {
							ns := s.childNSFor(po, k0, 0)
							name := fmt.Sprintf("%s-otherversion-r%d", p.Name, r)
							c := s.TP.desiredChild(po, k0, name, ns, 0)
							if cfg.GenerateSelector {
								setPath(c, mstr(po, "uid"), "metadata", "labels", "controller-uid")
							}
							ref := ownerRefObj(po, true)
							ref["apiVersion"] = p.Res.Group + "/v1beta1"
							setPath(c, []interface{}{ref}, "metadata", "ownerReferences")
							if _, e := w.Store.Create(k0, ns, c, "user"); e == nil {
								ex.mustSync[pkey(p)] = true
								others()
							}
						}
					case "related-edit", "related-relabel-away", "related-delete", "related-unselected-edit", "related-edit-after-expiry", "related-edit-after-expiry-customize-fails-for-another":
						// which parents currently have ConfigMap r0 of their namespace in their related set?
						if po == nil || !managed(po) {
							break
						}
						ns := p.NS
						if ns == "" {
							ns = "ns1"
						}
						name := "r0"
						if ev == "related-unselected-edit" {
							name = "r2" // labelled rel=c: selected by no rule
						}
						cur := w.Store.Get(ResConfigMap, ns, name)
						if cur == nil {
							break
						}
						selected := labelsOf(cur)["rel"] == "a"
						if ev == "related-edit-after-expiry-customize-fails-for-another" {
							// ... and when the event handler asks the customize hook again, it fails for one
							// of the other parents: that must not keep this parent from being woken
							failFor = ""
							for _, q := range s.Parents {
								if q != p && q.Get(w) != nil {
									failFor = q.Name
								}
							}
							if failFor == "" {
								break
							}
							w.Probe("c14:customize-fails-for-another-parent")
						}
						if ev == "related-edit-after-expiry" || ev == "related-edit-after-expiry-customize-fails-for-another" {
							// nothing touches the parents for longer than the customize answers are
							// cached (20 minutes): the event handler has to ask the hook again
							for waited := time.Duration(0); waited < 25*time.Minute; waited += time.Minute {
								w.Sleep(time.Minute)
								for i := 0; i < 50 && !w.Idle(); i++ {
									w.StepOnce(FairPolicy)
								}
							}
							ex.startStep = w.step
							w.Probe("c14:related-change-after-answer-cache-expired")
						}
						switch ev {
						case "related-edit", "related-unselected-edit", "related-edit-after-expiry", "related-edit-after-expiry-customize-fails-for-another":
							EditObject(w, ResConfigMap, ns, name, "user", func(o Object) { setPath(o, fmt.Sprint(w.step), "data", "v") })
						case "related-relabel-away":
							EditObject(w, ResConfigMap, ns, name, "user", func(o Object) { setPath(o, "zzz", "metadata", "labels", "rel") })
						case "related-delete":
							tombstone(ResConfigMap, func() { w.Store.Delete(ResConfigMap, ns, name, DeleteOpts{}, "user") })
						}
						_ = selected
						// every managed parent one of whose rules selected the object before the change
						for _, q := range s.Parents {
							qo := q.Get(w)
							if qo == nil || !managed(qo) {
								continue
							}
							if q.Name == failFor {
								continue // its rules cannot be had at present: it will be looked at again later
							}
							for _, rule := range parseRules(w, qo) {
								if rule.res == ResConfigMap && rule.selects(q.Res.Namespaced, q.NS, cur) {
									ex.mustSync[pkey(q)] = true
								}
							}
						}
					case "parent-create":
						name := fmt.Sprintf("extra%d", r)
						ns := p.NS
						o := NewThing(p.Res, ns, name, 1, "c0")
						setPath(o, "yes", "metadata", "labels", "managed")
						if _, e := w.Store.Create(p.Res, ns, o, "user"); e == nil {
							np := ParentRef{p.Res, ns, name}
							s.Parents = append(s.Parents, np)
							ex.mustSync[pkey(np)] = true
						}
					case "parent-delete":
						if po != nil && managed(po) && metaRO(po)["deletionTimestamp"] == nil {
							// (with a finalizer the parent only gets a deletion timestamp; without one it vanishes)
							tombstone(p.Res, func() { w.Store.Delete(p.Res, p.NS, p.Name, DeleteOpts{Propagation: "Background"}, "user") })
							ex.mustAdd = true
						}
					}
				},
				Check: func(w *World) *Violation {
					synced := map[string]bool{}
					for _, h := range w.Hooks {
						if h.ParkStep > ex.startStep && h.Req != nil && (h.Kind == "sync" || h.Kind == "finalize") {
							p := getMap(h.Req, "parent")
							synced[mstr(p, "namespace")+"/"+mstr(p, "name")] = true
						}
					}
					adds := 0
					for _, q := range w.QEvents {
						if q.Step > ex.startStep && q.Queue == queue && q.Kind == "add" {
							adds++
						}
					}
					s2 := copySig(sig)
					s2["event"] = ex.name
					var missing []string
					for k := range ex.mustSync {
						if !synced[k] {
							missing = append(missing, k)
						}
					}
					sort.Strings(missing)
					if len(missing) > 0 {
						return &Violation{Prop: prop, Class: "parent-not-woken", Sig: s2,
							Detail: fmt.Sprintf("after event %q (step %d) the parent(s) %v were not synced (synced: %v, queue adds: %d)", ex.name, ex.startStep, missing, keysOf(synced), adds)}
					}
					if ex.mustAdd && adds == 0 {
						return &Violation{Prop: prop, Class: "parent-not-queued", Sig: s2, Detail: fmt.Sprintf("after event %q (step %d) nothing was added to the queue", ex.name, ex.startStep)}
					}
					for k := range ex.mustNot {
						if synced[k] && !ex.mustSync[k] {
							return &Violation{Prop: prop, Class: "wrong-parent-woken", Sig: s2,
								Detail: fmt.Sprintf("event %q (step %d) must not wake parent %s, but it was synced", ex.name, ex.startStep, k)}
						}
					}
					if ex.noAdd && adds > 0 {
						return &Violation{Prop: prop, Class: "spurious-enqueue", Sig: s2,
							Detail: fmt.Sprintf("event %q (step %d) must enqueue nothing, but %d item(s) were added to %s", ex.name, ex.startStep, adds, queue)}
					}
					w.Probe("c14:round-ok:" + ex.name)
					return nil
				}})
		}
		w.Stages = stages
	}
}

func keysOf(m map[string]bool) []string {
	var out []string
	for k := range m {
		out = append(out, k)
	}
	sort.Strings(out)
	return out
}

// c14Decorator: the same round structure for a decorator controller.
func c14Decorator(w *World) {
	t := w.T
	ds := NewDecoratorSetup(w, DGenOpts{MaxDecorators: 1, MaxWorkers: 2})
	cfg := ds.Cfgs[0]
	cfg.ResyncSeconds = 0
	// in a third of the runs the decorator has a second resource rule, listed first, for a
	// kind of another API group (no such objects exist): discovery of that group can be
	// down while a target of the other rule changes
	twoRules := t.Pick(3, "tworules") == 2 && cfg.Resources[0].Res != ResWidget && cfg.Attachments[0].Res != ResWidget
	if twoRules {
		cfg.Resources = append([]DecoratorResourceRule{{Res: ResWidget}}, cfg.Resources...)
		ds.Opts.Proc.Discovery = 2 * time.Second
		w.Cfg["rules"] = "two (Widget first)"
	}
	tr := &cfg.Resources[len(cfg.Resources)-1]
	tr.IgnoreStatus = t.Pick(2, "ignorestatus") == 1
	// in a third of the runs the decorator has a customize hook naming a Secret: a change
	// to that Secret has to wake the targets in its namespace
	customize := t.Pick(3, "decorator-customize") == 2
	if customize {
		cfg.Customize = true
		ds.Progs[cfg.Name].Customize = func(req Object) Object {
			return Object{"relatedResources": []interface{}{Object{"apiVersion": "v1", "resource": "secrets", "names": []interface{}{"r0"}}}}
		}
		populateRelated(w)
		w.InlineUnsyncedHooks = true
		w.Cfg["customize"] = "true"
	}
	EditObject(w, ResDecoratorCtl, "", cfg.Name, "setup", func(o Object) { o["spec"] = cfg.Object()["spec"] })
	w.ResyncHint = 0
	sig := copySig(ds.Sig)
	sig["ignoreStatusChanges"] = fmt.Sprint(tr.IgnoreStatus)
	queue := cfg.QueueName()
	tres := tr.Res
	ares := cfg.Attachments[0].Res
	selected := func(o Object) bool {
		return o != nil && (cfg.Selects(tres, o) || hasFinalizer(o, cfg.FinalizerName()))
	}
	rounds := 5 + t.Pick(5, "rounds")
	stages := []Stage{{Name: "rest", Quiet: true, MaxSteps: 4000}}
	for r := 0; r < rounds; r++ {
		var name string
		var start int
		mustSync := map[string]bool{}
		noAdd := false
		mustAdd := false
		stages = append(stages, Stage{Name: fmt.Sprintf("round%d", r), Quiet: true, MaxSteps: 3000,
			Do: func(w *World) {
				start = w.step
				mustSync, noAdd, mustAdd = map[string]bool{}, false, false
				events := []string{"target-spec", "target-status", "target-labels", "unselected-target-edit", "attachment-edit", "attachment-delete", "foreign-attachment", "wrong-uid-attachment", "target-delete"}
				if twoRules {
					events = append(events, "target-spec-while-discovery-of-the-other-rule-is-down", "target-spec-while-discovery-of-the-other-rule-is-down")
				}
				if customize {
					events = append(events, "related-edit", "related-edit")
				}
				name = events[w.T.Pick(len(events), "event")]
				w.FaultsFired["event:"+name]++
				p := ds.Targets[w.T.Pick(len(ds.Targets), "which")]
				po := p.Get(w)
				if po == nil {
					return
				}
				key := p.NS + "/" + p.Name
				switch name {
				case "related-edit":
					if EditObject(w, ResSecret, p.NS, "r0", "user", func(o Object) { setPath(o, fmt.Sprint(w.step), "data", "v") }) {
						for _, q := range ds.Targets {
							if qo := q.Get(w); q.NS == p.NS && selected(qo) && metaRO(qo)["deletionTimestamp"] == nil {
								mustSync[q.NS+"/"+q.Name] = true
							}
						}
						w.Probe("c14:related-object-of-a-decorator-edited")
					}
				case "target-spec-while-discovery-of-the-other-rule-is-down":
					// the document of the first rule's group-version is unavailable and the
					// resource map has dropped it; a target of the second rule changes; then
					// discovery comes back. The target has to be synced all the same.
					w.DiscoveryDown = map[string]bool{"kids.example.com/v1": true}
					for i := 0; i < 6 && w.Proc.Resources.Get("kids.example.com/v1", "widgets") != nil; i++ {
						w.SleepHard(1100 * time.Millisecond)
						for j := 0; j < 40 && !w.Idle(); j++ {
							w.StepOnce(FairPolicy)
						}
					}
					start = w.step
					if w.Proc.Resources.Get("kids.example.com/v1", "widgets") == nil {
						w.Probe("c14:target-changed-while-another-rule's-group-is-undiscoverable")
					}
					EditObject(w, p.Res, p.NS, p.Name, "user", func(o Object) { setPath(o, fmt.Sprintf("c%d", w.step), "spec", "color") })
					if selected(po) {
						mustSync[key] = true
					}
					for i := 0; i < 12; i++ {
						w.StepOnce(FairPolicy)
					}
					w.DiscoveryDown = nil
				case "target-spec":
					EditObject(w, p.Res, p.NS, p.Name, "user", func(o Object) { setPath(o, fmt.Sprintf("c%d", w.step), "spec", "color") })
					if selected(po) {
						mustSync[key] = true
					}
				case "target-status":
					EditStatus(w, p.Res, p.NS, p.Name, "other", func(o Object) { setPath(o, fmt.Sprint(w.step), "status", "foreign") })
					if selected(po) {
						if tr.IgnoreStatus && tres.Status && metaRO(po)["deletionTimestamp"] == nil {
							noAdd = true
						} else if !tr.IgnoreStatus {
							mustSync[key] = true
						}
					}
				case "target-labels":
					EditObject(w, p.Res, p.NS, p.Name, "user", func(o Object) { setPath(o, fmt.Sprint(w.step), "metadata", "annotations", "touched") })
					if selected(po) {
						mustSync[key] = true
					}
				case "unselected-target-edit":
					if !selected(po) {
						EditObject(w, p.Res, p.NS, p.Name, "user", func(o Object) { setPath(o, fmt.Sprintf("c%d", w.step), "spec", "color") })
						noAdd = true
					}
				case "attachment-edit", "attachment-delete":
					mk, mv := cfg.Marker()
					for _, a := range ControlledBy(w.Store, ares, mstr(po, "uid")) {
						if annotationsOf(a)[mk] != mv || !selected(po) {
							continue
						}
						if name == "attachment-edit" {
							otherVersion := w.T.Pick(3, "owner-ref-other-version") == 2
							EditObject(w, ares, mstr(a, "namespace"), mstr(a, "name"), "user", func(o Object) {
								setPath(o, fmt.Sprint(w.step), childContentField(ares), "foreign")
								if otherVersion {
									ownerRefToOtherVersion(w, o, mstr(po, "uid"))
								}
							})
						} else {
							w.Store.Delete(ares, mstr(a, "namespace"), mstr(a, "name"), DeleteOpts{}, "user")
						}
						mustSync[key] = true
						break
					}
				case "foreign-attachment", "wrong-uid-attachment":
					ref := ownerRefObj(po, true)
					if name == "wrong-uid-attachment" {
						ref["uid"] = "uid-of-an-earlier-incarnation"
					} else {
						ref = Object{"apiVersion": "v1", "kind": "Other", "name": "x", "uid": "uid-other", "controller": true}
					}
					w.Store.Create(ares, p.NS, Object{"metadata": Object{"name": fmt.Sprintf("%s-%s-%d", p.Name, strings.Split(name, "-")[0], r), "ownerReferences": []interface{}{ref}}, childContentField(ares): Object{"x": "y"}}, "user")
					noAdd = true
				case "target-delete":
					if selected(po) && metaRO(po)["deletionTimestamp"] == nil {
						if w.T.Pick(3, "tombstone") == 2 {
							for _, ws := range w.OpenStreams() {
								if ws.Res == p.Res {
									w.BreakWatch(ws)
								}
							}
							EditObject(w, p.Res, p.NS, p.Name, "user", func(o Object) { delete(meta(o), "finalizers") })
							w.Store.Delete(p.Res, p.NS, p.Name, DeleteOpts{Propagation: "Background"}, "user")
							w.Store.Compact(w.Store.RV())
							w.FaultsFired["watch:410-relist-tombstone"]++
						} else {
							w.Store.Delete(p.Res, p.NS, p.Name, DeleteOpts{Propagation: "Background"}, "user")
						}
						mustAdd = true
					}
				}
			},
			Check: func(w *World) *Violation {
				synced := map[string]bool{}
				for _, h := range w.Hooks {
					if h.ParkStep > start && h.Req != nil && (h.Kind == "sync" || h.Kind == "finalize") {
						p := getMap(h.Req, "object")
						synced[mstr(p, "namespace")+"/"+mstr(p, "name")] = true
					}
				}
				adds := 0
				for _, q := range w.QEvents {
					if q.Step > start && q.Queue == queue && q.Kind == "add" {
						adds++
					}
				}
				s2 := copySig(sig)
				s2["event"] = name
				for k := range mustSync {
					if !synced[k] {
						return &Violation{Prop: "C14", Class: "parent-not-woken", Sig: s2,
							Detail: fmt.Sprintf("decorator: after event %q (step %d) target %s was not synced (synced: %v, adds: %d)", name, start, k, keysOf(synced), adds)}
					}
				}
				if mustAdd && adds == 0 {
					return &Violation{Prop: "C14", Class: "parent-not-queued", Sig: s2, Detail: fmt.Sprintf("decorator: after event %q (step %d) nothing was added to the queue", name, start)}
				}
				if noAdd && adds > 0 {
					return &Violation{Prop: "C14", Class: "spurious-enqueue", Sig: s2,
						Detail: fmt.Sprintf("decorator: event %q (step %d) must enqueue nothing, but %d item(s) were added", name, start, adds)}
				}
				w.Probe("c14:round-ok:" + name)
				return nil
			}})
	}
	w.Stages = stages
}

// ownerRefToOtherVersion rewrites the apiVersion of the owner reference with this UID to
// another version of the same group (the reference was written by a client that uses
// another served version of the parent's API): kind, name and UID still name the parent,
// and those are what an owner reference resolves by.
func ownerRefToOtherVersion(w *World, o Object, uid string) {
	for _, r := range getList(o, "metadata", "ownerReferences") {
		ref, _ := r.(map[string]interface{})
		if ref == nil || getStr(ref, "uid") != uid {
			continue
		}
		av := getStr(ref, "apiVersion")
		group := ""
		if i := strings.Index(av, "/"); i >= 0 {
			group = av[:i+1]
		}
		ref["apiVersion"] = group + "v1beta1"
		w.Probe("c14:owner-reference-names-another-version")
	}
}
