package sim

import (
	"fmt"
)

// c06Switching is the third family of C06: a child kind's update strategy is changed
// while a rollout is under way. Two child kinds start with rolling strategies; the
// parent's template is edited (the rollout begins), and some steps later the
// CompositeController is edited so that one kind uses InPlace from now on (the
// hosted controller restarts). From then on that kind is "changed by the method its
// strategy allows": InPlace updates a differing child at once, whatever an old
// ControllerRevision recorded for it while the kind was still rolling. Judged at rest:
// every child of a kind whose strategy updates (InPlace, Recreate, Rolling*) holds the
// state the hook desires for the live parent, and the rollout of the kind that is
// still rolling has finished.
func c06Switching(w *World) {
	t := w.T
	s := newRollingSetup(w, RollingOpts{MaxReplicas: 3, OwnUpdated: -1})
	cfg := s.Cfg
	w.Cfg["family"] = "strategy-switch-mid-rollout"
	first := cfg.Children[0]
	k2 := ResConfigMap
	if first.Res == ResConfigMap {
		k2 = ResWidget
	}
	m2 := []string{"RollingInPlace", "RollingRecreate"}[t.Pick(2, "m2rolling")]
	second := ChildRule{Res: k2, Method: m2}
	if len(cfg.Children) > 1 {
		cfg.Children[1] = second
	} else {
		cfg.Children = append(cfg.Children, second)
		s.TP.Kinds = append(s.TP.Kinds, k2)
	}
	EditObject(w, ResCompositeCtl, "", cfg.Name, "setup", func(o Object) { o["spec"] = cfg.Object()["spec"] })
	which := t.Pick(3, "switched-kind")
	to := []string{"InPlace", "Recreate"}[t.Pick(2, "switched-to")]
	noSwitch := which == 2
	if noSwitch {
		// a third of the family: both kinds keep rolling to the end (an old revision
		// then loses its last child of one kind while it still records the other's)
		which = 0
		to = cfg.Children[0].Method
		w.Cfg["switch"] = "none (two rolling kinds)"
	} else {
		w.Cfg["switch"] = fmt.Sprintf("%s:%s->%s", cfg.Children[which].Res.Kind, cfg.Children[which].Method, to)
	}
	p := s.Parents[0]
	fair := &Policy{Name: "fair+status", EnvWhenIdle: true}
	w.EnvOps = func(w *World) []EnvOp { return s.StatusActor(true) }
	changeStep := 0
	budget := func(w *World) *Violation {
		last := ""
		if len(w.Errs) > 0 {
			last = w.Errs[len(w.Errs)-1].Msg
		}
		return &Violation{Prop: "C06", Class: "not-at-rest-after-strategy-switch", Sig: s.Sig,
			Detail: fmt.Sprintf("%s during the rollout started at step %d: not at rest after %d steps (%d sync errors; last: %.200s)", w.Cfg["switch"], changeStep, w.step, len(w.Errs), last)}
	}
	w.Stages = []Stage{
		{Name: "converge", Quiet: true, MaxSteps: 3000, Policy: fair, OnBudget: budget},
		{Name: "change", Policy: fair, Steps: 4 + 8*t.Pick(5, "gap"), Do: func(w *World) {
			changeStep = w.step
			EditObject(w, p.Res, p.NS, p.Name, "user", func(o Object) { setPath(o, "c-new", "spec", "template", "color") })
		}},
		{Name: "switch", Quiet: true, MaxSteps: 6000, Policy: fair, OnBudget: budget,
			Do: func(w *World) {
				if noSwitch {
					return
				}
				cfg.Children[which].Method = to
				cfg.Children[which].StatusChecks = nil
				cfg.Ver++
				EditObject(w, ResCompositeCtl, "", cfg.Name, "config", func(o Object) { o["spec"] = cfg.Object()["spec"] })
				w.Proc.Reconcile("composite", cfg.Name)
				w.Probe("c06:strategy-switched-mid-rollout")
			},
			Check: func(w *World) *Violation {
				po := p.Get(w)
				if po == nil {
					return nil
				}
				var last *HookRec
				for _, h := range w.Hooks {
					if h.Code == 200 && h.Kind == "sync" && hookParentIs(h, "parent", p) && jsonString(getPath(h.Req, "parent", "spec")) == jsonString(po["spec"]) {
						last = h
					}
				}
				if last == nil {
					return &Violation{Prop: "C06", Class: "never-synced-latest", Sig: s.Sig, Detail: "the latest parent state was never sent to the hook"}
				}
				desired, _, err := desiredFromResponse(w, last.RespBody, "children", p.NS)
				if err != nil {
					return &Violation{Prop: "HARNESS", Class: "bad-program-response", Detail: err.Error()}
				}
				for id, d := range desired {
					rule := cfg.Rule(id.res)
					if rule == nil {
						continue
					}
					want := deepCopy(d)
					delete(meta(want), "namespace")
					got := w.Store.Get(id.res, id.ns, id.name)
					if got == nil || !contains(got, want) {
						w.Probe("c06:child-stale-after-strategy-switch")
						return &Violation{Prop: "C06", Class: "child-not-updated-after-strategy-switch", Sig: s.Sig,
							Detail: fmt.Sprintf("%s mid-rollout; at rest %s (strategy %q now) is %s, the hook desires %s for the live parent", w.Cfg["switch"], id, rule.Method, jsonString(got), jsonString(want))}
					}
				}
				return nil
			}},
	}
}
