package sim

import (
	"fmt"
	"sort"
	"strings"
)

// The resource universe of every run (DESIGN.md §4.1).
var (
	ResThing         = &Resource{Group: "ctl.example.com", Version: "v1", Plural: "things", Kind: "Thing", Namespaced: true, Status: true, Generation: true, Scale: true}
	ResClusterThing  = &Resource{Group: "ctl.example.com", Version: "v1", Plural: "clusterthings", Kind: "ClusterThing", Namespaced: false, Status: true, Generation: true}
	ResTarget        = &Resource{Group: "ctl.example.com", Version: "v1", Plural: "targets", Kind: "Target", Namespaced: true, Status: true, Generation: true, Scale: true}
	ResBareTarget    = &Resource{Group: "ctl.example.com", Version: "v1", Plural: "baretargets", Kind: "BareTarget", Namespaced: true, Status: false, Generation: true}
	ResWidget        = &Resource{Group: "kids.example.com", Version: "v1", Plural: "widgets", Kind: "Widget", Namespaced: true, Status: true, Generation: true}
	ResGadget        = &Resource{Group: "kids.example.com", Version: "v1beta1", Plural: "gadgets", Kind: "Gadget", Namespaced: true, Status: false, Generation: true}
	ResClusterWidget = &Resource{Group: "kids.example.com", Version: "v1", Plural: "clusterwidgets", Kind: "ClusterWidget", Namespaced: false, Status: false, Generation: true}
	ResConfigMap     = &Resource{Group: "", Version: "v1", Plural: "configmaps", Kind: "ConfigMap", Namespaced: true}
	ResSecret        = &Resource{Group: "", Version: "v1", Plural: "secrets", Kind: "Secret", Namespaced: true}
	ResNamespace     = &Resource{Group: "", Version: "v1", Plural: "namespaces", Kind: "Namespace", Namespaced: false, Status: true}
	ResRevision      = &Resource{Group: "metacontroller.k8s.io", Version: "v1alpha1", Plural: "controllerrevisions", Kind: "ControllerRevision", Namespaced: true, Generation: true}
	ResCompositeCtl  = &Resource{Group: "metacontroller.k8s.io", Version: "v1alpha1", Plural: "compositecontrollers", Kind: "CompositeController", Namespaced: false, Generation: true}
	ResDecoratorCtl  = &Resource{Group: "metacontroller.k8s.io", Version: "v1alpha1", Plural: "decoratorcontrollers", Kind: "DecoratorController", Namespaced: false, Generation: true}
	ResCRD           = &Resource{Group: "apiextensions.k8s.io", Version: "v1", Plural: "customresourcedefinitions", Kind: "CustomResourceDefinition", Namespaced: false, Status: true, Generation: true}
)

var universe = []*Resource{
	ResNamespace, ResConfigMap, ResSecret,
	ResThing, ResClusterThing, ResTarget, ResBareTarget,
	ResWidget, ResGadget, ResClusterWidget,
	ResRevision, ResCompositeCtl, ResDecoratorCtl, ResCRD,
}

var Namespaces = []string{"ns1", "ns2", "ns3"}

// InstallUniverse registers the resources, namespaces and the CRDs of the parents.
func InstallUniverse(w *World) {
	s := w.Store
	// (the one descriptor a scenario changes while it runs - C11's late status
	// subresource - starts every run in its usual shape)
	ResThing.Status = true
	for _, r := range universe {
		// resources are shared descriptors; the store only reads them
		s.AddResource(r)
	}
	for _, ns := range Namespaces {
		mustCreate(s, ResNamespace, "", Object{"metadata": Object{"name": ns}}, "setup")
	}
	for _, r := range []*Resource{ResThing, ResClusterThing, ResTarget, ResBareTarget, ResWidget, ResGadget, ResClusterWidget} {
		mustCreate(s, ResCRD, "", crdFor(r), "setup")
	}
}

func crdFor(r *Resource) Object {
	ver := Object{"name": r.Version, "served": true, "storage": true}
	if r.Status {
		ver["subresources"] = Object{"status": Object{}}
	}
	scope := "Cluster"
	if r.Namespaced {
		scope = "Namespaced"
	}
	return Object{
		"metadata": Object{"name": r.Plural + "." + r.Group},
		"spec": Object{
			"group": r.Group, "scope": scope,
			"names":    Object{"plural": r.Plural, "kind": r.Kind, "singular": strings.ToLower(r.Kind)},
			"versions": []interface{}{ver},
		},
	}
}

func mustCreate(s *Store, r *Resource, ns string, o Object, actor string) Object {
	out, e := s.Create(r, ns, o, actor)
	if e != nil {
		panic(fmt.Sprintf("sim: setup create %s %s/%v failed: %v", r.Kind, ns, metaRO(o)["name"], e))
	}
	return out
}

// ---------------------------------------------------------------------------
// small JSON helpers used by scenarios and oracles

func getPath(o interface{}, path ...string) interface{} {
	cur := o
	for _, p := range path {
		m, ok := cur.(map[string]interface{})
		if !ok {
			return nil
		}
		cur, ok = m[p]
		if !ok {
			return nil
		}
	}
	return cur
}

func getStr(o interface{}, path ...string) string {
	s, _ := getPath(o, path...).(string)
	return s
}

func getMap(o interface{}, path ...string) Object {
	m, _ := getPath(o, path...).(map[string]interface{})
	return m
}

func getList(o interface{}, path ...string) []interface{} {
	l, _ := getPath(o, path...).([]interface{})
	return l
}

func getInt(o interface{}, path ...string) int64 {
	switch v := getPath(o, path...).(type) {
	case int64:
		return v
	case float64:
		return int64(v)
	case int:
		return int64(v)
	}
	return 0
}

func setPath(o Object, v interface{}, path ...string) {
	cur := o
	for _, p := range path[:len(path)-1] {
		m, ok := cur[p].(map[string]interface{})
		if !ok {
			m = Object{}
			cur[p] = m
		}
		cur = m
	}
	cur[path[len(path)-1]] = v
}

func sortedKeys[V any](m map[string]V) []string {
	ks := make([]string, 0, len(m))
	for k := range m {
		ks = append(ks, k)
	}
	sort.Strings(ks)
	return ks
}

func ownerRefObj(parent Object, controller bool) Object {
	return Object{
		"apiVersion": parent["apiVersion"], "kind": parent["kind"],
		"name": mstr(parent, "name"), "uid": mstr(parent, "uid"),
		"controller": controller, "blockOwnerDeletion": true,
	}
}

// contains reports whether every field of want is present in have with the same
// value (maps recursively, everything else by equality of canonical JSON).
func contains(have, want interface{}) bool {
	wm, ok := want.(map[string]interface{})
	if !ok {
		return jsonString(have) == jsonString(want)
	}
	hm, ok := have.(map[string]interface{})
	if !ok {
		return false
	}
	for k, wv := range wm {
		hv, ok := hm[k]
		if !ok {
			return false
		}
		if !contains(hv, wv) {
			return false
		}
	}
	return true
}

// selectorMatches evaluates a metav1.LabelSelector given as JSON.
func selectorMatches(sel Object, lbls map[string]string) bool {
	for k, v := range getMap(sel, "matchLabels") {
		if s, _ := v.(string); lbls[k] != s {
			return false
		} else if _, ok := lbls[k]; !ok {
			return false
		}
	}
	for _, e := range getList(sel, "matchExpressions") {
		em, _ := e.(map[string]interface{})
		key, _ := em["key"].(string)
		op, _ := em["operator"].(string)
		vals := strList(em["values"])
		val, has := lbls[key]
		in := false
		for _, x := range vals {
			if x == val {
				in = true
			}
		}
		switch op {
		case "In":
			if !has || !in {
				return false
			}
		case "NotIn":
			if has && in {
				return false
			}
		case "Exists":
			if !has {
				return false
			}
		case "DoesNotExist":
			if has {
				return false
			}
		}
	}
	return true
}
