package sim

import (
	"fmt"
	"strconv"
	"strings"
)

// stripPaths removes the given dotted paths from a deep copy of o.
func stripPaths(o Object, paths []string) Object {
	c := deepCopy(o)
	for _, p := range paths {
		parts := strings.Split(p, ".")
		var m map[string]interface{} = c
		for i, k := range parts {
			if i == len(parts)-1 {
				delete(m, k)
				break
			}
			next, ok := m[k].(map[string]interface{})
			if !ok {
				break
			}
			m = next
		}
	}
	return c
}

// c17HookOracle: every object a hook is sent equals the version the API server
// issued under the object's resourceVersion (an old parent revision may differ
// from it at the revisioned field paths only).
func c17HookOracle(w *World, sig map[string]string, fieldPaths map[string][]string) *Violation {
	report := func(v *Violation) *Violation {
		if w.Known(v) {
			return nil
		}
		return v
	}
	checked := 0
	for _, h := range w.Hooks {
		if h.Req == nil {
			continue
		}
		type item struct {
			role string
			o    Object
		}
		var items []item
		for _, role := range []string{"parent", "object"} {
			if o := getMap(h.Req, role); o != nil {
				items = append(items, item{role, o})
			}
		}
		for _, role := range []string{"children", "attachments", "related"} {
			groups, _ := h.Req[role].(map[string]interface{})
			for _, gk := range sortedKeys(groups) {
				objs, _ := groups[gk].(map[string]interface{})
				for _, n := range sortedKeys(objs) {
					if o, ok := objs[n].(map[string]interface{}); ok {
						items = append(items, item{role, o})
					}
				}
			}
		}
		for _, it := range items {
			res := resOf(w, it.o)
			if res == nil {
				continue
			}
			ns, name, rvs := mstr(it.o, "namespace"), mstr(it.o, "name"), mstr(it.o, "resourceVersion")
			rv, _ := strconv.ParseInt(rvs, 10, 64)
			vsig := copySig(sig)
			vsig["hook"] = h.Controller + "/" + h.Kind
			vsig["role"] = it.role
			where := fmt.Sprintf("%s %s request of controller %s parked at step %d: %s %s %s/%s resourceVersion %s", h.Kind, "hook", h.Controller, h.ParkStep, it.role, res.Kind, ns, name, rvs)
			truthRaw := w.Store.VersionAt(res, ns, name, rv)
			if truthRaw == nil {
				vsig["field"] = "metadata"
				if v := report(&Violation{Prop: "C17", Class: "hook-sent-object-the-server-never-issued", Sig: vsig, Step: h.ParkStep,
					Detail: where + ": no such version was ever stored; sent " + jsonString(it.o)}); v != nil {
					return v
				}
				continue
			}
			checked++
			truth := mustParse(truthRaw)
			d := firstDiff("", truth, it.o)
			if d == "" {
				continue
			}
			if fp := fieldPaths[h.Controller]; it.role == "parent" && h.Kind != "customize" && len(fp) > 0 {
				// a rolling update asks the hook about older parent revisions, too
				if firstDiff("", stripPaths(truth, fp), stripPaths(it.o, fp)) == "" {
					w.Probes["old-revision-parent-sent"]++
					continue
				}
				d = firstDiff("", stripPaths(truth, fp), stripPaths(it.o, fp))
			}
			vsig["field"] = topField(d)
			if v := report(&Violation{Prop: "C17", Class: "hook-sent-object-differs-from-server-version", Sig: vsig, Step: h.ParkStep,
				Detail: fmt.Sprintf("%s differs from what the API server issued at %s: server %s, sent %s", where, strings.TrimPrefix(d, "."), jsonString(getPathAny(truth, d)), jsonString(getPathAny(it.o, d)))}); v != nil {
				return v
			}
		}
	}
	w.Probes["hook-objects-compared-with-server"] = checked
	return nil
}

// C17Scenario: several controllers share the informers of one process; several
// workers sync distinct parents while a rolling update calls the hook once per
// revision in parallel; parked calls are released together; requests fail.
func C17Scenario() *Scenario {
	return &Scenario{Prop: "C17", Init: func(w *World) {
		t := w.T
		if t.Pick(3, "family") == 2 {
			c17Guest(w)
			return
		}
		s := newRollingSetup(w, RollingOpts{Workers: 3, MaxParents: 3, Customize: true})
		cfg := s.Cfg
		// a hook that answers without any status (legal): the controller supplies one
		s.TP.NilStatus = t.Pick(3, "nilstatus") == 2
		w.Cfg["hookStatus"] = map[bool]string{true: "none", false: "given"}[s.TP.NilStatus]
		// a decorator in the same process, sharing the parent informer (or the
		// child informer) and the informers of related kinds
		if t.Pick(4, "decorator") > 0 {
			target := cfg.Parent
			if t.Pick(3, "dtarget") == 2 && s.rollingRule().Res != ResConfigMap {
				target = s.rollingRule().Res
			}
			var free []*Resource
			for _, k := range []*Resource{ResSecret, ResConfigMap, ResGadget} {
				if cfg.Rule(k) == nil {
					free = append(free, k)
				}
			}
			ak := free[t.Pick(len(free), "attkind")]
			dc := &DecoratorCfg{Name: "dc0", Ver: 1, Resources: []DecoratorResourceRule{{Res: target}},
				Attachments: []ChildRule{{Res: ak, Method: []string{"InPlace", "Recreate"}[t.Pick(2, "attmethod")]}}}
			if t.Pick(3, "dresync") == 2 {
				dc.ResyncSeconds = 10
			}
			s.Opts.Decorators = append(s.Opts.Decorators, dc)
			dp := &DecorateProgram{Kinds: []*Resource{ak}, Tag: dc.Name}
			s.Progs[dc.Name] = &Program{Sync: dp.Sync, Finalize: dp.Finalize}
			mustCreate(w.Store, ResDecoratorCtl, "", dc.Object(), "setup")
			StandardBoot(w, s.Opts)
			w.Cfg["decorator"] = fmt.Sprintf("%s on %s attaching %s", dc.Name, target.Kind, ak.Kind)
		}
		s.Sig["prop"] = "C17"
		w.Invariants = append(w.Invariants, CacheFingerprints("C17", s.Sig))
		b := &EnvBudget{Left: 4 + t.Pick(8, "envbudget")}
		chaos := true
		w.EnvOps = func(w *World) []EnvOp {
			var ops []EnvOp
			if chaos {
				ops = append(ops, s.ParentEdits(b)...)
				if b.Left > 0 {
					for _, c := range s.allChildren() {
						c := c
						res := resOf(w, c)
						if len(ownerRefsOf(c)) == 0 {
							continue
						}
						ops = append(ops, EnvOp{"delete " + res.Kind + "/" + mstr(c, "name"), func(w *World) {
							b.take()
							w.Store.Delete(res, mstr(c, "namespace"), mstr(c, "name"), DeleteOpts{}, "user")
						}})
					}
					if cfg.Customize {
						ops = append(ops, RelatedOps(w, b)...)
					}
				}
			}
			ops = append(ops, s.StatusActor(true)...)
			return ops
		}
		pol := lagPolicy(t)
		pol.EnvProb = 120
		pol.Batch = []int{0, 150, 400, 700}[t.Pick(4, "batch")]
		pol.APIFault = []int{0, 20, 60}[t.Pick(3, "apifaults")]
		pol.APIFaults = []string{"404", "409", "500", "neterr", "lost"}
		pol.HookFault = []int{0, 80, 300}[t.Pick(3, "hookfaults")]
		pol.HookFaults = []string{"500", "refused", "garbage"}
		pol.HookFaultBurst = t.Pick(2, "hookburst") == 1
		w.Cfg["policy"] = fmt.Sprintf("%s batch=%d apifault=%d hookfault=%d", pol.Name, pol.Batch, pol.APIFault, pol.HookFault)
		fair := &Policy{Name: "fair+status", EnvWhenIdle: true, Batch: pol.Batch}
		fps := map[string][]string{"cc": fieldPathsOf(cfg)}
		settled := 0
		w.Stages = []Stage{
			{Name: "converge", Quiet: true, MaxSteps: 4000, Policy: fair, Do: func(w *World) { chaos = false }},
			{Name: "rollout", Policy: pol, Steps: 150 + 100*t.Pick(4, "len"), Do: func(w *World) { chaos = true }},
			{Name: "settle", Quiet: true, MaxSteps: 6000, Policy: fair, Do: func(w *World) { chaos = false; b.Left = 0; settled = w.step }},
			// an injected 404 or 409 is a lie (the object is there / is not there), and
			// metacontroller rightly believes it: "already exists" on a create and "not
			// found" on the parent end a sync without an error. Only a further event makes
			// it look again, so every parent gets one before convergence is judged.
			{Name: "nudge", Quiet: true, MaxSteps: 6000, Policy: fair,
				Do: func(w *World) {
					for _, p := range s.Parents {
						EditObject(w, p.Res, p.NS, p.Name, "user", func(o Object) { setPath(o, "1", "metadata", "annotations", "nudge") })
					}
				},
				Check: func(w *World) *Violation {
					if w.fp == nil || w.fp.Checked == 0 {
						// the cache oracle never saw a cached object: the factory's layout is not
						// what sim/fingerprint.go expects, and a silent pass would be worthless
						return &Violation{Prop: "HARNESS", Class: "cache-oracle-blind", Detail: "no object of the shared informer caches could be read in this run"}
					}
					if v := c17HookOracle(w, s.Sig, fps); v != nil {
						return v
					}
					// the outcome of the concurrent syncs is the one serial syncs reach: the
					// fixed point of the hook program for every parent
					_ = settled
					return convergedCheck(w, "C17", s.Sig, cfg, s.Parents, 0)
				}},
		}
	}}
}

// c17Guests: scenarios of the other properties that C17 re-runs with its own
// oracles (cache fingerprints after every step, hook requests against the
// server's history, race detector) in place of theirs.
var c17Guests = []string{"C01", "C02", "C03", "C04", "C06", "C07", "C08", "C09", "C10", "C11", "C12", "C13", "C14", "C15", "C16", "C20"}

func c17Guest(w *World) {
	t := w.T
	g := c17Guests[t.Pick(len(c17Guests), "guest")]
	Scenarios[g]().Init(w)
	w.Cfg["guest"] = g
	sig := map[string]string{"prop": "C17", "guest": g}
	// only C17's oracles judge this run
	w.Invariants = []func(w *World) *Violation{CacheFingerprints("C17", sig)}
	w.PanicProp, w.PanicSig = "", nil
	batch := []int{0, 150, 400}[t.Pick(3, "batch")]
	w.Cfg["guestBatch"] = fmt.Sprint(batch)
	for i := range w.Stages {
		st := &w.Stages[i]
		st.Check, st.OnBudget = nil, nil
		if batch > 0 {
			p := *FairPolicy
			if st.Policy != nil {
				p = *st.Policy
			}
			p.Batch = batch
			st.Policy = &p
		}
	}
	w.Stages = append(w.Stages, Stage{Name: "c17-history", Steps: 1, Check: func(w *World) *Violation {
		fps := map[string][]string{}
		for _, c := range w.Store.List(ResCompositeCtl, "") {
			var paths []string
			for _, p := range getList(c, "spec", "parentResource", "revisionHistory", "fieldPaths") {
				if ps, ok := p.(string); ok {
					paths = append(paths, ps)
				}
			}
			if len(paths) == 0 {
				paths = []string{"spec"}
			}
			fps[mstr(c, "name")] = paths
		}
		return c17HookOracle(w, sig, fps)
	}})
}
