package sim

import (
	"fmt"
	"strings"
)

// Race-detector oracle. A worker built with -race sets RaceErrors and
// RaceReport; the kernel then asks after every step whether the detector has
// reported a new race. The schedule stays the simulator's: what the detector
// judges is whether two accesses released in the same kernel step (or by the
// same clock advance) are ordered by synchronisation of the code under test.
var (
	RaceErrors func() int    // number of races reported so far in this process
	RaceReport func() string // report text written since the previous call
)

// ParseRaceReport extracts from the first report in text a description, a
// signature (the repository frames of the two conflicting accesses) and whether
// the report concerns the simulator itself rather than the code under test.
func ParseRaceReport(text string) (what string, sig map[string]string, harness bool) {
	i := strings.Index(text, "WARNING: DATA RACE")
	if i < 0 {
		return "race reported but no report text was captured", map[string]string{}, true
	}
	text = text[i:]
	if j := strings.Index(text[1:], "=================="); j >= 0 {
		text = text[:j+1]
	}
	type access struct {
		op          string
		top, repo   string
		harnessTop  bool
		anyHarness  bool // some frame of the stack is the simulator's
		cacheOracle bool // ... namely the cache-fingerprint oracle reading a cached object
		repoFrameAt int
	}
	var accs []access
	for _, sec := range strings.Split(text, "\n\n") {
		lines := strings.Split(strings.TrimSpace(sec), "\n")
		if len(lines) == 0 {
			continue
		}
		head := strings.TrimSpace(lines[0])
		if strings.HasPrefix(head, "WARNING: DATA RACE") && len(lines) > 1 {
			lines = lines[1:]
			head = strings.TrimSpace(lines[0])
		}
		lower := strings.ToLower(head)
		if !(strings.HasPrefix(lower, "read at") || strings.HasPrefix(lower, "write at") || strings.HasPrefix(lower, "previous read at") ||
			strings.HasPrefix(lower, "previous write at") || strings.HasPrefix(lower, "atomic") || strings.HasPrefix(lower, "previous atomic")) {
			continue
		}
		a := access{op: strings.ToLower(strings.TrimPrefix(lower, "previous "))}
		if k := strings.Index(a.op, " at "); k >= 0 {
			a.op = a.op[:k]
		}
		for _, ln := range lines[1:] {
			if strings.HasPrefix(ln, "      ") || strings.TrimSpace(ln) == "" {
				continue // file:line
			}
			fn := strings.TrimSpace(ln)
			if k := strings.LastIndex(fn, "("); k > 0 {
				fn = fn[:k]
			}
			if strings.HasPrefix(fn, "runtime.") || strings.HasPrefix(fn, "internal/runtime") || strings.HasPrefix(fn, "sync.") || strings.HasPrefix(fn, "sync/atomic.") {
				continue
			}
			if a.top == "" {
				a.top = fn
				a.harnessTop = strings.HasPrefix(fn, "dst/")
			}
			if a.repo == "" && strings.HasPrefix(fn, "metacontroller/") {
				a.repo = fn
			}
			if strings.HasPrefix(fn, "dst/") {
				a.anyHarness = true
				if strings.Contains(fn, "CacheFingerprints") || strings.HasSuffix(fn, ".treeHash") {
					a.cacheOracle = true
				}
			}
		}
		accs = append(accs, a)
	}
	if len(accs) < 2 {
		return "race report with fewer than two access stacks:\n" + text, map[string]string{}, true
	}
	a, b := accs[0], accs[1]
	name := func(x access) string {
		if x.repo != "" {
			return x.op + " in " + x.repo
		}
		return x.op + " in " + x.top
	}
	na, nb := name(a), name(b)
	if nb < na {
		na, nb = nb, na
	}
	sig = map[string]string{"a": na, "b": nb}
	harness = a.anyHarness || b.anyHarness || (a.repo == "" && b.repo == "")
	// one exception: the cache oracle only reads objects held by the shared informer
	// caches; if such a read is unordered with a write made by metacontroller code,
	// that code wrote into a cached object (which nothing may do)
	for _, p := range [][2]access{{a, b}, {b, a}} {
		if p[0].cacheOracle && !p[1].anyHarness && p[1].repo != "" && strings.HasPrefix(p[1].op, "write") {
			harness = false
			sig = map[string]string{"a": "read of a cached object by the cache oracle", "b": name(p[1])}
		}
	}
	what = fmt.Sprintf("data race: %s (top frame %s) / %s (top frame %s)", name(a), a.top, name(b), b.top)
	return what, sig, harness
}

// checkRace turns a new race-detector report into a violation of prop.
func (w *World) checkRace() *Violation {
	if RaceErrors == nil {
		return nil
	}
	n := RaceErrors()
	if n <= w.raceBase {
		return nil
	}
	w.raceBase = n
	text := ""
	if RaceReport != nil {
		text = RaceReport()
	}
	what, sig, harness := ParseRaceReport(text)
	if harness {
		return &Violation{Prop: "HARNESS", Class: "race-in-simulator", Detail: what + "\n" + text, Step: w.step}
	}
	prop := w.RaceProp
	if prop == "" {
		prop = "C17"
	}
	return &Violation{Prop: prop, Class: "data-race", Sig: sig, Step: w.step, Detail: what + "\n" + text}
}
