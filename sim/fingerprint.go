package sim

import (
	"encoding/json"
	"fmt"
	"math"
	"reflect"
	"sort"
	"strconv"
	"strings"
	"sync"
	"unsafe"

	"k8s.io/apimachinery/pkg/apis/meta/v1/unstructured"
	"k8s.io/client-go/tools/cache"
)

// The cache-fingerprint oracle looks into the real shared informer caches of
// the running metacontroller process (the indexers behind every lister) after
// every kernel step and compares each object with the version of it that the
// simulated API server issued under the same resourceVersion. The ground truth
// is the store's history, not the simulator's own cache model.

type realCached struct {
	res *Resource
	ptr uintptr
	u   *unstructured.Unstructured // dynamic informers
	obj interface{}                // typed informers (metacontroller's own API group)
}

type fpEntry struct {
	hash uint64
	rv   string
}

type fpState struct {
	seen    map[uintptr]fpEntry
	Checked int // full comparisons against the server's version
	Hashed  int // fingerprints taken
}

// dynIndexers returns the indexer of every live shared dynamic informer, keyed
// by "<plural>.<apiVersion>". The factory keeps them in an unexported map; it is
// read here under the factory's own mutex (skipped when somebody holds it).
func dynIndexers(f interface{}) (map[string]cache.Indexer, bool) {
	v := reflect.ValueOf(f).Elem()
	mu := (*sync.Mutex)(unsafe.Pointer(v.FieldByName("mutex").UnsafeAddr()))
	if !mu.TryLock() {
		return nil, false
	}
	defer mu.Unlock()
	out := map[string]cache.Indexer{}
	m := v.FieldByName("sharedInformers")
	it := m.MapRange()
	for it.Next() {
		sri := it.Value().Elem()
		inf := sri.FieldByName("informer")
		si, ok := reflect.NewAt(inf.Type(), unsafe.Pointer(inf.UnsafeAddr())).Elem().Interface().(cache.SharedIndexInformer)
		if !ok || si == nil {
			continue
		}
		out[it.Key().String()] = si.GetIndexer()
	}
	return out, true
}

func (w *World) realCaches() ([]realCached, bool) {
	p := w.Proc
	if p == nil || p.DynInformers == nil {
		return nil, false
	}
	idx, ok := dynIndexers(p.DynInformers)
	if !ok {
		return nil, false
	}
	byKey := map[string]*Resource{}
	for _, r := range w.Store.resList {
		byKey[r.Plural+"."+r.APIVersion()] = r
	}
	keys := make([]string, 0, len(idx))
	for k := range idx {
		keys = append(keys, k)
	}
	sort.Strings(keys)
	var out []realCached
	for _, k := range keys {
		res := byKey[k]
		if res == nil {
			continue
		}
		for _, o := range idx[k].List() {
			u, ok := o.(*unstructured.Unstructured)
			if !ok {
				continue
			}
			out = append(out, realCached{res: res, ptr: uintptr(unsafe.Pointer(u)), u: u})
		}
	}
	if p.McInformers != nil {
		v1 := p.McInformers.Metacontroller().V1alpha1()
		typed := []struct {
			res *Resource
			inf cache.SharedIndexInformer
		}{
			{ResRevision, v1.ControllerRevisions().Informer()},
		}
		for _, t := range typed {
			for _, o := range t.inf.GetIndexer().List() {
				rv := reflect.ValueOf(o)
				if rv.Kind() != reflect.Ptr {
					continue
				}
				out = append(out, realCached{res: t.res, ptr: rv.Pointer(), obj: o})
			}
		}
	}
	return out, true
}

func mix64(x uint64) uint64 {
	x ^= x >> 33
	x *= 0xff51afd7ed558ccd
	x ^= x >> 33
	x *= 0xc4ceb9fe1a85ec53
	x ^= x >> 33
	return x
}

func strHash(s string) uint64 {
	h := uint64(14695981039346656037)
	for i := 0; i < len(s); i++ {
		h ^= uint64(s[i])
		h *= 1099511628211
	}
	return h
}

// treeHash fingerprints an unstructured value without allocating; map entries
// are combined commutatively, so the result does not depend on iteration order.
func treeHash(v interface{}) uint64 {
	switch x := v.(type) {
	case nil:
		return 0x9e3779b97f4a7c15
	case map[string]interface{}:
		h := uint64(0x6d61703a)
		for k, e := range x {
			h += mix64(strHash(k) ^ (treeHash(e) * 0x9e3779b97f4a7c15))
		}
		return mix64(h)
	case []interface{}:
		h := uint64(0x6c697374)
		for _, e := range x {
			h = mix64(h*31 + treeHash(e))
		}
		return h
	case string:
		return mix64(strHash(x) ^ 0x73)
	case bool:
		if x {
			return 0x74727565
		}
		return 0x66616c73
	case int64:
		return mix64(math.Float64bits(float64(x)) ^ 0x6e)
	case float64:
		return mix64(math.Float64bits(x) ^ 0x6e)
	case int:
		return mix64(math.Float64bits(float64(x)) ^ 0x6e)
	default:
		return mix64(strHash(fmt.Sprintf("%T:%v", v, v)))
	}
}

// firstDiff names the first path at which two JSON values differ.
func firstDiff(path string, a, b interface{}) string {
	am, aok := a.(map[string]interface{})
	bm, bok := b.(map[string]interface{})
	if aok && bok {
		keys := map[string]bool{}
		for k := range am {
			keys[k] = true
		}
		for k := range bm {
			keys[k] = true
		}
		ks := make([]string, 0, len(keys))
		for k := range keys {
			ks = append(ks, k)
		}
		sort.Strings(ks)
		for _, k := range ks {
			av, ain := am[k]
			bv, bin := bm[k]
			if !ain || !bin {
				return path + "." + k
			}
			if d := firstDiff(path+"."+k, av, bv); d != "" {
				return d
			}
		}
		return ""
	}
	al, aok := a.([]interface{})
	bl, bok := b.([]interface{})
	if aok && bok {
		if len(al) != len(bl) {
			return path
		}
		for i := range al {
			if d := firstDiff(fmt.Sprintf("%s[%d]", path, i), al[i], bl[i]); d != "" {
				return d
			}
		}
		return ""
	}
	ja, _ := json.Marshal(a)
	jb, _ := json.Marshal(b)
	if string(ja) != string(jb) {
		return path
	}
	return ""
}

func topField(path string) string {
	path = strings.TrimPrefix(path, ".")
	parts := strings.SplitN(path, ".", 3)
	if len(parts) > 2 {
		parts = parts[:2]
	}
	s := strings.Join(parts, ".")
	if i := strings.IndexByte(s, '['); i >= 0 {
		s = s[:i]
	}
	return s
}

// typedJSON renders a typed API object without its TypeMeta (typed clients drop it).
func typedJSON(o interface{}) (Object, error) {
	b, err := json.Marshal(o)
	if err != nil {
		return nil, err
	}
	m, err := parse(b)
	if err != nil {
		return nil, err
	}
	delete(m, "apiVersion")
	delete(m, "kind")
	return m, nil
}

// CacheFingerprints is the invariant: every object in a shared cache equals the
// version the API server issued under its resourceVersion, at every step.
func CacheFingerprints(prop string, sig map[string]string) func(w *World) *Violation {
	return func(w *World) *Violation {
		if w.fp == nil {
			w.fp = &fpState{seen: map[uintptr]fpEntry{}}
		}
		st := w.fp
		objs, ok := w.realCaches()
		if !ok {
			return nil
		}
		for _, c := range objs {
			var cur Object
			var h uint64
			var name, ns, rvs string
			if c.u != nil {
				cur = c.u.Object
				h = treeHash(cur)
				md, _ := cur["metadata"].(map[string]interface{})
				name, _ = md["name"].(string)
				ns, _ = md["namespace"].(string)
				rvs, _ = md["resourceVersion"].(string)
			} else {
				m, err := typedJSON(c.obj)
				if err != nil {
					return &Violation{Prop: "HARNESS", Class: "cannot-render-cached-object", Detail: err.Error()}
				}
				cur = m
				h = treeHash(cur)
				name, ns, rvs = mstr(cur, "name"), mstr(cur, "namespace"), mstr(cur, "resourceVersion")
			}
			st.Hashed++
			prev, had := st.seen[c.ptr]
			if had && prev.hash == h {
				continue
			}
			if had {
				// the very same cached object changed: judge it against the version it was equal to
				rvs = prev.rv
			}
			rv, _ := strconv.ParseInt(rvs, 10, 64)
			truthRaw := w.Store.VersionAt(c.res, ns, name, rv)
			vsig := copySig(sig)
			vsig["cached"] = c.res.Kind
			where := fmt.Sprintf("%s %s/%s (resourceVersion %s) in the shared informer cache", c.res.Kind, ns, name, rvs)
			if truthRaw == nil {
				vsig["field"] = "metadata"
				return &Violation{Prop: prop, Class: "cached-object-modified", Sig: vsig,
					Detail: fmt.Sprintf("%s: the API server never issued this object under this name and resourceVersion; content %s", where, jsonString(cur))}
			}
			st.Checked++
			truth := mustParse(truthRaw)
			if c.u == nil {
				// compare what a typed client decodes from the server's bytes
				fresh := reflect.New(reflect.TypeOf(c.obj).Elem()).Interface()
				if err := json.Unmarshal(truthRaw, fresh); err != nil {
					return &Violation{Prop: "HARNESS", Class: "cannot-decode-server-version", Detail: err.Error()}
				}
				t, err := typedJSON(fresh)
				if err != nil {
					return &Violation{Prop: "HARNESS", Class: "cannot-render-server-version", Detail: err.Error()}
				}
				truth = t
			}
			if d := firstDiff("", truth, cur); d != "" {
				vsig["field"] = topField(d)
				when := "when it was first seen in the cache"
				if had {
					when = "after having been equal to it at an earlier step"
				}
				return &Violation{Prop: prop, Class: "cached-object-modified", Sig: vsig,
					Detail: fmt.Sprintf("%s differs from the version the API server issued at %s, %s: server %s, cache %s", where, strings.TrimPrefix(d, "."), when, jsonString(getPathAny(truth, d)), jsonString(getPathAny(cur, d)))}
			}
			if had {
				return &Violation{Prop: "HARNESS", Class: "fingerprint-collision", Detail: where + ": fingerprint changed but the content is equal"}
			}
			st.seen[c.ptr] = fpEntry{hash: h, rv: rvs}
		}
		w.Probes["cache-objects-fingerprinted"] = st.Hashed
		w.Probes["cache-objects-compared-with-server"] = st.Checked
		return nil
	}
}

// getPathAny follows a firstDiff path (".a.b[2].c") as far as it exists.
func getPathAny(v interface{}, path string) interface{} {
	path = strings.TrimPrefix(path, ".")
	if path == "" {
		return v
	}
	for _, part := range strings.Split(path, ".") {
		idx := -1
		if i := strings.IndexByte(part, '['); i >= 0 {
			n, _ := strconv.Atoi(strings.TrimSuffix(part[i+1:], "]"))
			idx = n
			part = part[:i]
		}
		m, ok := v.(map[string]interface{})
		if !ok {
			return nil
		}
		v = m[part]
		if idx >= 0 {
			l, ok := v.([]interface{})
			if !ok || idx >= len(l) {
				return nil
			}
			v = l[idx]
		}
	}
	return v
}
