package sim

import (
	"fmt"
	"sort"
	"strings"
)

// revInfo is a parsed ControllerRevision.
type revInfo struct {
	Name   string
	UID    string
	Owner  string // controller uid
	Patch  Object
	Claims []string // "group|kind|name" in stored order
	Obj    Object
}

func claimKey(group, kind, name string) string { return group + "|" + kind + "|" + name }

func parseRevision(o Object) *revInfo {
	r := &revInfo{Name: mstr(o, "name"), UID: mstr(o, "uid"), Patch: getMap(o, "parentPatch"), Obj: o}
	if c := controllerOf(o); c != nil {
		r.Owner = c.UID
	}
	for _, ck := range getList(o, "children") {
		for _, n := range strList(getPath(ck, "names")) {
			r.Claims = append(r.Claims, claimKey(getStr(ck, "apiGroup"), getStr(ck, "kind"), n))
		}
	}
	return r
}

func (r *revInfo) claims(k string) bool {
	for _, c := range r.Claims {
		if c == k {
			return true
		}
	}
	return false
}

func fieldPathsOf(cfg *CompositeCfg) []string {
	if len(cfg.FieldPaths) > 0 {
		return cfg.FieldPaths
	}
	return []string{"spec"}
}

// applyFieldPaths returns a copy of parent with the revisioned fields taken from patch.
func applyFieldPaths(parent, patch Object, paths []string) Object {
	out := deepCopy(parent)
	for _, fp := range paths {
		parts := strings.Split(fp, ".")
		if v := getPath(patch, parts...); v != nil {
			setPath(out, mustParseAny(jsonString(v)), parts...)
		}
	}
	return out
}

func mustParseAny(s string) interface{} {
	o := mustParse([]byte(`{"v":` + s + `}`))
	return o["v"]
}

func makeFieldPatch(parent Object, paths []string) Object {
	out := Object{}
	for _, fp := range paths {
		parts := strings.Split(fp, ".")
		if v := getPath(parent, parts...); v != nil {
			setPath(out, mustParseAny(jsonString(v)), parts...)
		}
	}
	return out
}

// rollSync is one sync of a parent with a rolling strategy, with everything the
// rolling oracles need.
type rollSync struct {
	sy        *SyncRec
	parent    Object                       // the latest parent as sent to the hook
	latest    *HookRec                     // the call for the latest parent state
	calls     map[string]*HookRec          // canon(request parent) -> call
	before    []*revInfo                   // revisions of this parent in the cache when the sync started
	after     []*revInfo                   // ... plus the accepted revision writes of this sync
	latestRev string                       // name of the revision holding the latest patch (after)
	desired   map[string]map[string]Object // revision name -> claimKey -> desired child (from that revision's answer)
	order     []string                     // claim keys of rolling children in the latest answer's order
	complete  bool                         // every call was answered 200 and parsed
}

func childClaimKey(w *World, o Object) (string, *Resource) {
	res := resOf(w, o)
	if res == nil {
		return "", nil
	}
	return claimKey(res.Group, res.Kind, getStr(o, "metadata", "name")), res
}

// buildRollSyncs reconstructs rolling syncs for the controller of s.
func buildRollSyncs(w *World, s *Setup) []*rollSync {
	var out []*rollSync
	paths := fieldPathsOf(s.Cfg)
	for _, sy := range w.Syncs("parent") {
		if len(sy.Hooks) == 0 {
			continue
		}
		rs := &rollSync{sy: sy, calls: map[string]*HookRec{}, desired: map[string]map[string]Object{}, complete: true}
		var first *HookRec
		for _, h := range sy.Hooks {
			if h.Kind != "sync" && h.Kind != "finalize" {
				continue
			}
			if h.Req == nil {
				rs.complete = false
				continue
			}
			if first == nil {
				first = h
			}
			rs.calls[jsonString(getMap(h.Req, "parent"))] = h
			if h.Code != 200 || h.Fault != "" {
				rs.complete = false
			}
		}
		if first == nil {
			continue
		}
		// the latest parent is the one the informer cache held during the sync
		pname, pns := getStr(first.Req, "parent", "metadata", "name"), getStr(first.Req, "parent", "metadata", "namespace")
		for _, ver := range w.Cache.Versions(sy.ID.Inc, s.Cfg.Parent, pns, pname, sy.StartStep-1, first.ParkStep) {
			if ver == nil {
				continue
			}
			if h := rs.calls[jsonString(mustParse(ver))]; h != nil {
				rs.latest = h
				rs.parent = mustParse(ver)
			}
		}
		if rs.latest == nil {
			continue
		}
		puid := mstr(rs.parent, "uid")
		view := w.Cache.View(sy.ID.Inc, ResRevision, sy.StartStep-1)
		for _, k := range viewKeys(view) {
			r := parseRevision(mustParse(view[k]))
			if r.Owner == puid {
				rs.before = append(rs.before, r)
			}
		}
		// after = before + this sync's accepted revision writes
		cur := map[string]*revInfo{}
		for _, r := range rs.before {
			cur[r.Name] = r
		}
		for _, q := range sy.Reqs {
			if q.Res != ResRevision || !q.IsWrite() || !accepted(q) {
				continue
			}
			if q.Post == nil {
				delete(cur, q.Name)
				continue
			}
			r := parseRevision(mustParse(q.Post))
			if r.Owner == puid {
				cur[r.Name] = r
			}
		}
		for _, n := range sortedKeys(cur) {
			rs.after = append(rs.after, cur[n])
		}
		latestPatch := jsonString(makeFieldPatch(rs.parent, paths))
		for _, r := range rs.after {
			if jsonString(r.Patch) == latestPatch {
				rs.latestRev = r.Name
			}
		}
		// desired children per revision, from that revision's own answer
		addDesired := func(revName string, h *HookRec) {
			if h == nil || h.Code != 200 {
				return
			}
			resp, err := parse(h.RespBody)
			if err != nil {
				return
			}
			m := map[string]Object{}
			for _, c := range getList(resp, "children") {
				co, ok := c.(map[string]interface{})
				if !ok {
					continue
				}
				k, res := childClaimKey(w, co)
				if res == nil {
					continue
				}
				m[k] = co
				if h == rs.latest {
					if rule := s.Cfg.Rule(res); rule != nil && isRolling(rule.Method) {
						rs.order = append(rs.order, k)
					}
				}
			}
			rs.desired[revName] = m
		}
		addDesired("", rs.latest) // "" = the latest parent state
		all := append(append([]*revInfo{}, rs.before...), rs.after...)
		for _, r := range all {
			if _, ok := rs.desired[r.Name]; ok {
				continue
			}
			exp := jsonString(applyFieldPaths(rs.parent, r.Patch, paths))
			if h := rs.calls[exp]; h != nil {
				if h == rs.latest {
					rs.desired[r.Name] = rs.desired[""]
				} else {
					addDesired(r.Name, h)
				}
			}
		}
		out = append(out, rs)
	}
	return out
}

func claimedBy(revs []*revInfo, key string) *revInfo {
	// the latest revision wins over any other; otherwise first in name order
	for _, r := range revs {
		if r.claims(key) {
			return r
		}
	}
	return nil
}

func (rs *rollSync) claimant(revs []*revInfo, key string) string {
	// precedence as documented: the latest revision first
	latestPatch := ""
	for _, r := range revs {
		if r.Name == rs.latestRev {
			latestPatch = r.Name
		}
	}
	if latestPatch != "" {
		for _, r := range revs {
			if r.Name == latestPatch && r.claims(key) {
				return r.Name
			}
		}
	}
	for _, r := range revs {
		if r.claims(key) {
			return r.Name
		}
	}
	return ""
}

// observedVersions returns the cache versions of a child during the sync (up to the hook call).
func (rs *rollSync) observedVersions(w *World, s *Setup, key string) [][]byte {
	parts := strings.SplitN(key, "|", 3)
	res := w.Store.ResourceByKind(parts[0], parts[1])
	if res == nil {
		return nil
	}
	ns := ""
	if res.Namespaced {
		ns = mstr(rs.parent, "namespace")
	}
	return w.Cache.Versions(rs.sy.ID.Inc, res, ns, parts[2], rs.sy.StartStep-1, rs.latest.ParkStep)
}

func desiredContained(observed []byte, desired Object) bool {
	if observed == nil || desired == nil {
		return false
	}
	want := deepCopy(desired)
	delete(meta(want), "namespace")
	return contains(mustParse(observed), want)
}

func statusChecksPass(rule *ChildRule, o Object) bool {
	for _, sc := range rule.StatusChecks {
		var cond Object
		for _, c := range getList(o, "status", "conditions") {
			if getStr(c, "type") == getStr(sc, "type") {
				cond, _ = c.(map[string]interface{})
				break
			}
		}
		if cond == nil {
			return false
		}
		if st, ok := sc["status"].(string); ok && getStr(cond, "status") != st {
			return false
		}
		if rsn, ok := sc["reason"].(string); ok && getStr(cond, "reason") != rsn {
			return false
		}
	}
	return true
}

// healthy: present, up to date with the latest desired state, generation observed
// (RollingInPlace, when the child reports one) and passing the status checks.
func (rs *rollSync) healthy(w *World, s *Setup, key string, ver []byte) bool {
	if ver == nil {
		return false
	}
	d := rs.desired[""][key]
	if d == nil {
		return false
	}
	if !desiredContained(ver, d) {
		return false
	}
	o := mustParse(ver)
	parts := strings.SplitN(key, "|", 3)
	res := w.Store.ResourceByKind(parts[0], parts[1])
	rule := s.Cfg.Rule(res)
	if rule.Method == "RollingInPlace" {
		// (a value that is not an integer - some kinds publish a string - counts as "does not report one")
		if og, ok := intGeneration(getPath(o, "status", "observedGeneration")); ok && og > 0 && og < getInt(o, "metadata", "generation") {
			return false
		}
	}
	return statusChecksPass(rule, o)
}

func sortedClaims(revs []*revInfo) string {
	var parts []string
	for _, r := range revs {
		c := append([]string{}, r.Claims...)
		sort.Strings(c)
		parts = append(parts, fmt.Sprintf("%s…%s=%v", r.Name[:8], r.Name[len(r.Name)-4:], c))
	}
	return strings.Join(parts, " ")
}

// intGeneration reads an observedGeneration the way a Kubernetes client sees it:
// only integral JSON numbers are integers.
func intGeneration(v interface{}) (int64, bool) {
	switch x := v.(type) {
	case int64:
		return x, true
	case int:
		return int64(x), true
	case float64:
		if x == float64(int64(x)) {
			return int64(x), true
		}
	}
	return 0, false
}
