package sim

import (
	"fmt"
	"sort"
	"strings"
	"time"
)

// ChildRule is one childResources / attachments entry of a controller.
type ChildRule struct {
	Res          *Resource
	Method       string // "" = unset
	StatusChecks []Object
}

// CompositeCfg describes one CompositeController object.
type CompositeCfg struct {
	EchoHook         bool // scenario fact: the hook's children carry the annotations of the observed child of the same name
	PlainOwnerHook   bool // scenario fact, not part of the object: the hook's children carry a plain ownerReference to the parent
	Name             string
	Parent           *Resource
	Children         []ChildRule
	GenerateSelector bool
	Finalize         bool
	Customize        bool
	NoSync           bool
	ResyncSeconds    int
	LabelSelector    Object
	IgnoreStatus     bool
	FieldPaths       []string
	Ver              int
	Etag             bool
	Strict           bool
	TimeoutSeconds   int
}

func hookURL(ctrl, kind string, ver int) string {
	return fmt.Sprintf("http://hooks.sim/%s/%s/v%d", ctrl, kind, ver)
}

func webhook(ctrl, kind string, ver int, etag, strict bool, timeout int) Object {
	wh := Object{"url": hookURL(ctrl, kind, ver)}
	if etag {
		wh["etag"] = Object{"enabled": true, "cacheTimeoutSeconds": int64(300), "cacheCleanupSeconds": int64(600)}
	}
	if strict {
		wh["responseUnMarshallMode"] = "strict"
	}
	if timeout > 0 {
		wh["timeout"] = fmt.Sprintf("%ds", timeout)
	}
	return Object{"webhook": wh}
}

// Object renders the CompositeController.
func (c *CompositeCfg) Object() Object {
	pr := Object{"apiVersion": c.Parent.APIVersion(), "resource": c.Parent.Plural}
	if len(c.FieldPaths) > 0 {
		l := []interface{}{}
		for _, f := range c.FieldPaths {
			l = append(l, f)
		}
		pr["revisionHistory"] = Object{"fieldPaths": l}
	}
	if c.LabelSelector != nil {
		pr["labelSelector"] = c.LabelSelector
	}
	if c.IgnoreStatus {
		pr["ignoreStatusChanges"] = true
	}
	var kids []interface{}
	for _, ch := range c.Children {
		k := Object{"apiVersion": ch.Res.APIVersion(), "resource": ch.Res.Plural}
		if ch.Method != "" {
			us := Object{"method": ch.Method}
			if len(ch.StatusChecks) > 0 {
				l := []interface{}{}
				for _, sc := range ch.StatusChecks {
					l = append(l, sc)
				}
				us["statusChecks"] = Object{"conditions": l}
			}
			k["updateStrategy"] = us
		}
		kids = append(kids, k)
	}
	hooks := Object{}
	if !c.NoSync {
		hooks["sync"] = webhook(c.Name, "sync", c.Ver, c.Etag, c.Strict, c.TimeoutSeconds)
	}
	if c.Finalize {
		hooks["finalize"] = webhook(c.Name, "finalize", c.Ver, c.Etag, c.Strict, c.TimeoutSeconds)
	}
	if c.Customize {
		hooks["customize"] = webhook(c.Name, "customize", c.Ver, false, c.Strict, c.TimeoutSeconds)
	}
	spec := Object{"parentResource": pr, "hooks": hooks}
	if len(kids) > 0 {
		spec["childResources"] = kids
	}
	if c.GenerateSelector {
		spec["generateSelector"] = true
	}
	if c.ResyncSeconds > 0 {
		spec["resyncPeriodSeconds"] = int64(c.ResyncSeconds)
	}
	return Object{"apiVersion": "metacontroller.k8s.io/v1alpha1", "kind": "CompositeController",
		"metadata": Object{"name": c.Name}, "spec": spec}
}

func (c *CompositeCfg) FinalizerName() string {
	return "metacontroller.io/compositecontroller-" + c.Name
}
func (c *CompositeCfg) QueueName() string { return "CompositeController-" + c.Name }

func (c *CompositeCfg) Rule(res *Resource) *ChildRule {
	for i := range c.Children {
		if c.Children[i].Res == res {
			return &c.Children[i]
		}
	}
	return nil
}

// ---------------------------------------------------------------------------
// hook programs: pure functions of the request

// Program is the behaviour of one controller's webhooks.
type Program struct {
	Sync      func(req Object) Object
	Finalize  func(req Object) Object
	Customize func(req Object) Object
	// Raw, when set, overrides everything: it sees the call and may answer any bytes.
	Raw func(w *World, h *HookRec) *HookAnswer
}

// TemplateProgram is the family of hook programs of DESIGN.md §4.2.
type TemplateProgram struct {
	ParentKey       string // "parent" (composite) or "object" (decorator)
	ChildrenKey     string // "children" or "attachments"
	Kinds           []*Resource
	StaticIdx       map[int]bool // children (by index) whose content does not depend on the parent's template
	Ordered         bool         // child i is desired only once child i-1 was observed
	NeedReady       bool         // ... and observed Ready
	Derived         bool         // second kind: one per observed child of the first kind
	SetNamespace    bool         // set metadata.namespace on namespaced children (always done for cluster parents)
	NoLabels        bool         // do not put the selector labels on children (generateSelector adds controller-uid)
	BadLabel        bool         // put labels that do not satisfy the selector
	OwnUpdated      bool         // return an own status.conditions[Updated]
	OwnUpdatedAs    string       // its status: "" = Unknown, "True", "False", or "echo" (whatever the parent's status carries)
	NilStatus       bool         // return no status at all
	Related         bool         // one extra child per related ConfigMap
	ResyncAfter     float64
	Teardown        bool // finalize: drop one observed child per call instead of all at once
	WithStatus      bool // desired children carry a status stanza (which metacontroller must ignore)
	EmptyNS         bool // namespaced parent: children carry metadata.namespace "" (present but empty) instead of omitting it
	PlainOwner      bool // children carry a plain (non-controller) ownerReference to the parent, as a hook copying references would
	Descending      bool // list the children of the first kind from the highest ordinal down (StatefulSet-like)
	EchoAnnotations bool // desired children carry the annotations of the observed child of the same name (a hook that preserves what others annotated)
	FinalizeAtOnce  bool // finalize: answer finalized:true with no children straight away, whatever is observed
	SameNames       bool // cluster-scoped parent: children in different namespaces share a name (p0-0 in ns1 and in ns2)
	FinalizeHold    bool // finalize: while spec.template.hold is true keep the children and answer finalized:false;
	// otherwise keep the children and answer finalized:true at once (legal: leftovers go to the GC)
}

func childContentField(r *Resource) string {
	if r == ResConfigMap || r == ResSecret {
		return "data"
	}
	return "spec"
}

// observedOf returns the observed objects of kind r in a hook request, by inner key.
func observedOf(req Object, field string, r *Resource) map[string]interface{} {
	return getMap(req, field, r.KindKey())
}

func (tp *TemplateProgram) parentOf(req Object) Object { return getMap(req, tp.ParentKey) }

// desiredChild renders child i of kind r for the given parent.
func (tp *TemplateProgram) desiredChild(parent Object, r *Resource, name, ns string, idx int) Object {
	spec := getMap(parent, "spec")
	tpl := getMap(spec, "template")
	content := Object{"idx": int64(idx)}
	if tp.StaticIdx != nil && tp.StaticIdx[idx] {
		// a child that does not depend on the template: the same in every revision
		tpl = nil
		content["static"] = true
	}
	for _, k := range sortedKeys(tpl) {
		if k == "metadata" {
			continue
		}
		content[k] = tpl[k]
	}
	if note, ok := spec["note"]; ok {
		content["note"] = note
	}
	md := Object{"name": name}
	if ns != "" {
		md["namespace"] = ns
	} else if tp.EmptyNS && r.Namespaced && mstr(parent, "namespace") != "" {
		md["namespace"] = ""
	}
	if tp.PlainOwner && mstr(parent, "uid") != "" {
		md["ownerReferences"] = []interface{}{Object{"apiVersion": parent["apiVersion"], "kind": parent["kind"], "name": mstr(parent, "name"), "uid": mstr(parent, "uid")}}
	}
	if tp.BadLabel {
		// labels that do not satisfy the parent's selector (with a generated selector:
		// the controller-uid of somebody else)
		md["labels"] = Object{"app": "not-" + mstr(parent, "name"), "controller-uid": "uid-of-someone-else"}
	} else if !tp.NoLabels {
		lbl := Object{}
		for k, v := range getMap(spec, "selector", "matchLabels") {
			lbl[k] = v
		}
		if len(lbl) > 0 {
			md["labels"] = lbl
		}
	}
	out := Object{"apiVersion": r.APIVersion(), "kind": r.Kind, "metadata": md, childContentField(r): content}
	if tp.WithStatus {
		out["status"] = Object{"phase": "Desired", "seen": int64(idx)}
	}
	return out
}

func isReady(o interface{}) bool {
	for _, c := range getList(o, "status", "conditions") {
		if getStr(c, "type") == "Ready" && getStr(c, "status") == "True" {
			return true
		}
	}
	return false
}

// innerKey is the documented key of a child inside a children map.
func innerKey(parentNS, childNS, name string) string {
	if parentNS == "" && childNS != "" {
		return childNS + "/" + name
	}
	return name
}

func (tp *TemplateProgram) childNS(parent Object, r *Resource, idx int) string {
	if !r.Namespaced {
		return ""
	}
	if pns := mstr(parent, "namespace"); pns != "" {
		if tp.SetNamespace {
			return pns
		}
		return ""
	}
	tns := strList(getPath(parent, "spec", "targetNamespaces"))
	if len(tns) == 0 {
		return "ns1"
	}
	return tns[idx%len(tns)]
}

// childName is the name of child idx ("-b" marks the second kind).
func (tp *TemplateProgram) childName(parent Object, r *Resource, mark string, idx int) string {
	if tp.SameNames && r.Namespaced && mstr(parent, "namespace") == "" {
		if tns := strList(getPath(parent, "spec", "targetNamespaces")); len(tns) > 1 {
			idx /= len(tns)
		}
	}
	return fmt.Sprintf("%s-%s%d", mstr(parent, "name"), mark, idx)
}

// Desired computes the desired children for a request.
func (tp *TemplateProgram) Desired(req Object) []Object {
	parent := tp.parentOf(req)
	pns := mstr(parent, "namespace")
	n := int(getInt(parent, "spec", "replicas"))
	var out []Object
	if len(tp.Kinds) == 0 {
		return out
	}
	k0 := tp.Kinds[0]
	obs0 := observedOf(req, tp.ChildrenKey, k0)
	for i := 0; i < n; i++ {
		name := tp.childName(parent, k0, "", i)
		ns := tp.childNS(parent, k0, i)
		if tp.Ordered && i > 0 {
			prevNS := tp.childNS(parent, k0, i-1)
			if prevNS == "" && k0.Namespaced {
				prevNS = pns
			}
			prev, ok := obs0[innerKey(pns, prevNS, tp.childName(parent, k0, "", i-1))]
			if !ok || (tp.NeedReady && !isReady(prev)) {
				break
			}
		}
		c := tp.desiredChild(parent, k0, name, ns, i)
		if tp.EchoAnnotations {
			key := ns
			if key == "" && k0.Namespaced {
				key = pns
			}
			if o, ok := obs0[innerKey(pns, key, name)]; ok {
				if ann, ok := getPath(o, "metadata", "annotations").(map[string]interface{}); ok && len(ann) > 0 {
					setPath(c, deepCopyAny(ann), "metadata", "annotations")
				}
			}
		}
		out = append(out, c)
	}
	if tp.Descending {
		for i, j := 0, len(out)-1; i < j; i, j = i+1, j-1 {
			out[i], out[j] = out[j], out[i]
		}
	}
	if len(tp.Kinds) > 1 {
		k1 := tp.Kinds[1]
		if tp.Derived {
			for _, key := range sortedKeys(obs0) {
				o := obs0[key]
				if getPath(o, "metadata", "deletionTimestamp") != nil {
					continue
				}
				nm := getStr(o, "metadata", "name") + "-x"
				ns := ""
				if k1.Namespaced {
					ns = getStr(o, "metadata", "namespace")
					if ns == "" {
						ns = tp.childNS(parent, k1, 0)
					} else if pns != "" && !tp.SetNamespace {
						ns = ""
					}
				}
				out = append(out, tp.desiredChild(parent, k1, nm, ns, 100))
			}
		} else {
			for i := 0; i < n; i++ {
				out = append(out, tp.desiredChild(parent, k1, tp.childName(parent, k1, "b", i), tp.childNS(parent, k1, i), i))
			}
		}
	}
	if tp.Related {
		rel := getMap(req, "related", ResConfigMap.KindKey())
		for _, key := range sortedKeys(rel) {
			// only the scenario's own related objects ("r<N>"), never objects that are
			// themselves children (a child per child would feed back and grow without bound)
			if n := getStr(rel[key], "metadata", "name"); len(n) < 2 || n[0] != 'r' || len(getList(rel[key], "metadata", "ownerReferences")) > 0 {
				continue
			}
			nm := "rel-" + strings.ReplaceAll(key, "/", "-")
			c := tp.desiredChild(parent, k0, mstr(parent, "name")+"-"+nm, tp.childNS(parent, k0, 0), 200)
			setPath(c, getPath(rel[key], "data"), childContentField(k0), "from")
			out = append(out, c)
		}
	}
	return out
}

func (tp *TemplateProgram) status(req Object) Object {
	if tp.NilStatus {
		return nil
	}
	st := Object{}
	for _, k := range tp.Kinds {
		obs := observedOf(req, tp.ChildrenKey, k)
		st["n"+k.Kind] = int64(len(obs))
		st["names"+k.Kind] = strings.Join(sortedKeys(obs), ",")
	}
	if tp.OwnUpdated {
		c := Object{"type": "Updated", "status": "Unknown", "reason": "HookSaysSo"}
		switch tp.OwnUpdatedAs {
		case "True", "False":
			c["status"] = tp.OwnUpdatedAs
		case "echo":
			for _, oc := range getList(tp.parentOf(req), "status", "conditions") {
				if getStr(oc, "type") == "Updated" {
					c = deepCopyAny(oc).(map[string]interface{})
				}
			}
		}
		st["conditions"] = []interface{}{c}
	}
	return st
}

func toList(objs []Object) []interface{} {
	l := make([]interface{}, 0, len(objs))
	for _, o := range objs {
		l = append(l, o)
	}
	return l
}

// SyncResponse is the sync hook.
func (tp *TemplateProgram) SyncResponse(req Object) Object {
	resp := Object{tp.ChildrenKey: toList(tp.Desired(req))}
	if st := tp.status(req); st != nil {
		resp["status"] = st
	}
	if tp.ResyncAfter > 0 {
		resp["resyncAfterSeconds"] = tp.ResyncAfter
	}
	return resp
}

// FinalizeResponse is the finalize hook: children are dropped (all at once, or one
// per call with Teardown) and finalized is true once none is observed.
func (tp *TemplateProgram) FinalizeResponse(req Object) Object {
	var observed []string
	total := 0
	for _, k := range tp.Kinds {
		obs := observedOf(req, tp.ChildrenKey, k)
		total += len(obs)
		if k == tp.Kinds[0] {
			observed = sortedKeys(obs)
		}
	}
	resp := Object{tp.ChildrenKey: []interface{}{}}
	if tp.FinalizeHold {
		hold, _ := getPath(tp.parentOf(req), "spec", "template", "hold").(bool)
		resp[tp.ChildrenKey] = toList(tp.Desired(req))
		resp["finalized"] = !hold
		if st := tp.status(req); st != nil {
			st["finalizing"] = true
			resp["status"] = st
		}
		return resp
	}
	if tp.Teardown && len(observed) > 1 {
		// keep all but the last observed child of the first kind, unchanged
		keep := map[string]bool{}
		for _, k := range observed[:len(observed)-1] {
			keep[k] = true
		}
		var kept []Object
		for _, d := range tp.Desired(req) {
			ns := getStr(d, "metadata", "namespace")
			if ns == "" && tp.Kinds[0].Namespaced {
				ns = mstr(tp.parentOf(req), "namespace")
			}
			if getStr(d, "kind") == tp.Kinds[0].Kind && keep[innerKey(mstr(tp.parentOf(req), "namespace"), ns, getStr(d, "metadata", "name"))] {
				kept = append(kept, d)
			}
		}
		resp[tp.ChildrenKey] = toList(kept)
	}
	resp["finalized"] = total == 0 || tp.FinalizeAtOnce
	if st := tp.status(req); st != nil {
		st["finalizing"] = true
		resp["status"] = st
	}
	return resp
}

// ---------------------------------------------------------------------------

// Programs dispatches hook calls to the registered controller programs.
type Programs map[string]*Program

func (ps Programs) Answer(w *World, h *HookRec) HookAnswer {
	p := ps[h.Controller]
	if p == nil {
		return HookAnswer{Code: 404, Body: []byte("no such hook")}
	}
	if p.Raw != nil {
		if a := p.Raw(w, h); a != nil {
			return *a
		}
	}
	var f func(Object) Object
	switch h.Kind {
	case "sync":
		f = p.Sync
	case "finalize":
		f = p.Finalize
	case "customize":
		f = p.Customize
	}
	if f == nil || h.Req == nil {
		return HookAnswer{Code: 404, Body: []byte("no such hook")}
	}
	return HookAnswer{Code: 200, Body: canon(f(deepCopy(h.Req)))}
}

// ---------------------------------------------------------------------------
// parents

// NewThing renders a parent object for the template programs.
func NewThing(res *Resource, ns, name string, replicas int, color string) Object {
	o := Object{
		"apiVersion": res.APIVersion(), "kind": res.Kind,
		"metadata": Object{"name": name},
		"spec": Object{
			"replicas": int64(replicas),
			"selector": Object{"matchLabels": Object{"app": name}},
			"template": Object{
				"metadata": Object{"labels": Object{"app": name}},
				"color":    color,
				"nested":   Object{"a": "x", "b": int64(1)},
				"items":    []interface{}{Object{"name": "first", "v": "1"}, Object{"name": "second", "v": "2"}},
				"args":     []interface{}{"--alpha", "--beta"},
			},
			"note": "n0",
		},
	}
	if res.Namespaced {
		meta(o)["namespace"] = ns
	} else {
		setPath(o, []interface{}{"ns1", "ns2"}, "spec", "targetNamespaces")
	}
	return o
}

// ControlledBy lists objects of res whose controller reference carries uid.
func ControlledBy(s *Store, res *Resource, uid string) []Object {
	var out []Object
	for _, o := range s.List(res, "") {
		if c := controllerOf(o); c != nil && c.UID == uid {
			out = append(out, o)
		}
	}
	return out
}

func objNames(objs []Object) []string {
	var out []string
	for _, o := range objs {
		n := mstr(o, "name")
		if ns := mstr(o, "namespace"); ns != "" {
			n = ns + "/" + n
		}
		out = append(out, n)
	}
	sort.Strings(out)
	return out
}

// BootOptions are the per-run process options of composite/decorator scenarios.
type BootOptions struct {
	Proc       ProcOptions
	Composites []*CompositeCfg
	Decorators []*DecoratorCfg
}

// StandardBoot installs an OnBoot that starts the process and reconciles every
// controller object present in the store.
func StandardBoot(w *World, opts *BootOptions) {
	w.OnBoot = func(w *World) {
		w.Proc = Boot(w, opts.Proc)
		for i := 0; !w.Proc.Resources.HasSynced() && i < 200; i++ {
			w.StepOnce(FairPolicy)
		}
		for _, o := range w.Store.List(ResCompositeCtl, "") {
			w.Proc.Reconcile("composite", mstr(o, "name"))
		}
		for _, o := range w.Store.List(ResDecoratorCtl, "") {
			w.Proc.Reconcile("decorator", mstr(o, "name"))
		}
	}
	for _, c := range opts.Composites {
		if d := time.Duration(c.ResyncSeconds) * time.Second; d > w.ResyncHint {
			w.ResyncHint = d
		}
	}
	for _, c := range opts.Decorators {
		if d := time.Duration(c.ResyncSeconds) * time.Second; d > w.ResyncHint {
			w.ResyncHint = d
		}
	}
}

func deepCopyAny(v interface{}) interface{} {
	return mustParseAny(jsonString(v))
}
