package sim

import (
	"fmt"
	"sort"
)

// CacheModel reconstructs, from what the kernel served and delivered, exactly
// what each shared informer cache of the current process contains after every
// kernel step. The informer of a resource is fed by its LIST answers (which
// replace the cache) and by the frames of its WATCH stream; both are kernel
// actions, and the reflector applies them within the same step.
type cacheChange struct {
	Step int
	Inc  int
	Res  string // resource key
	Key  objKey
	Raw  []byte // nil = removed
	List bool   // first change of a LIST replacement: the cache of Res is cleared first
}

type CacheModel struct {
	log   []cacheChange
	byRes map[string][]int // "inc|res" -> indices into log, in order
}

func (c *CacheModel) add(ch cacheChange) {
	if c.byRes == nil {
		c.byRes = map[string][]int{}
	}
	k := fmt.Sprintf("%d|%s", ch.Inc, ch.Res)
	c.byRes[k] = append(c.byRes[k], len(c.log))
	c.log = append(c.log, ch)
}

func (c *CacheModel) entries(inc int, res *Resource) []int {
	return c.byRes[fmt.Sprintf("%d|%s", inc, res.Key())]
}

func (c *CacheModel) list(step, inc int, res *Resource, items []Object) {
	c.add(cacheChange{Step: step, Inc: inc, Res: res.Key(), List: true})
	for _, o := range items {
		k := objKey{res.Key(), mstr(o, "namespace"), mstr(o, "name")}
		c.add(cacheChange{Step: step, Inc: inc, Res: res.Key(), Key: k, Raw: canon(o)})
	}
}

func (c *CacheModel) event(step, inc int, ev *Event) {
	k := objKey{ev.Res.Key(), ev.NS, ev.Name}
	ch := cacheChange{Step: step, Inc: inc, Res: ev.Res.Key(), Key: k, Raw: ev.Raw}
	if ev.Type == "DELETED" {
		ch.Raw = nil
	}
	c.add(ch)
}

// View returns the cache content of resource res in incarnation inc after step.
func (c *CacheModel) View(inc int, res *Resource, step int) map[objKey][]byte {
	out := map[objKey][]byte{}
	for _, i := range c.entries(inc, res) {
		ch := &c.log[i]
		if ch.Step > step {
			break
		}
		if ch.List {
			out = map[objKey][]byte{}
			continue
		}
		if ch.Raw == nil {
			delete(out, ch.Key)
		} else {
			out[ch.Key] = ch.Raw
		}
	}
	return out
}

// Versions returns every version of one object the cache held during steps [from, to].
func (c *CacheModel) Versions(inc int, res *Resource, ns, name string, from, to int) [][]byte {
	k := objKey{res.Key(), ns, name}
	var cur []byte
	var out [][]byte
	started := false
	for _, i := range c.entries(inc, res) {
		ch := &c.log[i]
		if ch.Step > to {
			break
		}
		if ch.Step > from && !started {
			started = true
			out = append(out, cur) // the value at the start of the window (may be nil)
		}
		if ch.List {
			cur = nil
		} else if ch.Key == k {
			cur = ch.Raw
		} else {
			continue
		}
		if started {
			out = append(out, cur)
		}
	}
	if !started {
		out = append(out, cur)
	}
	return out
}

// Synced reports whether the informer of res in incarnation inc had been handed
// its (first) LIST answer by the end of the given step.
func (c *CacheModel) Synced(inc int, res *Resource, step int) bool {
	for _, i := range c.entries(inc, res) {
		ch := &c.log[i]
		if ch.Step > step {
			return false
		}
		if ch.List {
			return true
		}
	}
	return false
}

// storeStable returns the objects of res that were in the store at the end of step
// from and were not written or deleted up to and including step to.
func storeStable(w *World, res *Resource, from, to int) []Object {
	cur := map[objKey][]byte{}
	touched := map[objKey]bool{}
	for i := range w.Store.History {
		ev := &w.Store.History[i]
		if ev.Res != res || ev.Step > to {
			continue
		}
		k := objKey{res.Key(), ev.NS, ev.Name}
		if ev.Step > from {
			touched[k] = true
			continue
		}
		if ev.Type == "DELETED" {
			delete(cur, k)
		} else {
			cur[k] = ev.Raw
		}
	}
	var out []Object
	for _, k := range viewKeys(cur) {
		if !touched[k] {
			out = append(out, mustParse(cur[k]))
		}
	}
	return out
}

// Keys returns the sorted keys of a view.
func viewKeys(v map[objKey][]byte) []objKey {
	ks := make([]objKey, 0, len(v))
	for k := range v {
		ks = append(ks, k)
	}
	sort.Slice(ks, func(i, j int) bool { return ks[i].String() < ks[j].String() })
	return ks
}
