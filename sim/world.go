package sim

import (
	"bytes"
	"fmt"
	"io"
	"net/http"
	"net/url"
	"os"
	"runtime"
	"sort"
	"strconv"
	"strings"
	"sync"
	"testing/synctest"
	"time"
)

// ---------------------------------------------------------------------------
// records (the observable history oracles read)

// ReqRec is one API request made by metacontroller, as it was answered.
type ReqRec struct {
	Step, Arrival int
	Inc           int // incarnation (process life) that sent it
	Method, Path  string
	Verb          string // get list watch create update patch delete discovery
	Res           *Resource
	NS, Name, Sub string
	Query         url.Values
	Body          []byte
	ContentType   string
	Gid, Root     int
	Sync          int // sequence number of the sync (per worker goroutine) it was sent in; -1 = outside any sync
	Queue         string
	Code          int    // HTTP status answered; 0 = connection error
	Fault         string // "" or the injected fault kind
	Applied       bool   // the store was changed by it
	Pre, Post     []byte // target object before / after (nil = absent)
	Answered      bool
	ParkStep      int
	sig           string
	resp          chan rtAnswer
	ctxDone       <-chan struct{}
	cancelled     bool
}

// IsWrite reports whether the request is a mutating verb.
func (r *ReqRec) IsWrite() bool {
	switch r.Verb {
	case "create", "update", "patch", "delete":
		return true
	}
	return false
}

func (r *ReqRec) Short() string {
	f := ""
	if r.Fault != "" {
		f = " fault=" + r.Fault
	}
	return fmt.Sprintf("%s %s -> %d%s", r.Method, r.Path, r.Code, f)
}

// HookRec is one webhook call, as it was answered.
type HookRec struct {
	Step, Arrival         int
	Inc                   int
	URL                   string
	Controller, Kind, Ver string // parsed from the URL path: /<controller>/<kind>/<ver>
	ReqRaw                []byte
	Req                   Object
	Header                http.Header
	Gid, Root, Sync       int
	Queue                 string
	Code                  int
	RespHeader            map[string]string
	RespBody              []byte
	Fault                 string
	Answered              bool
	ParkStep              int
	ParkTime              time.Duration
	resp                  chan rtAnswer
	ctxDone               <-chan struct{}
	cancelled             bool
	sig                   string
}

type rtAnswer struct {
	resp *http.Response
	err  error
}

// QRec is one work-queue event.
type QRec struct {
	Seq   int // position in the run's global arrival order (shared with requests, hook calls and errors)
	Step  int
	Inc   int
	Queue string
	Kind  string // add get done retry
	Gid   int
	Time  time.Duration
}

// ErrRec is one error reported through utilruntime.HandleError.
type ErrRec struct {
	Sim  time.Duration // simulated time since the start of the run
	Seq  int
	Step int
	Inc  int
	Gid  int
	Msg  string
	Time time.Duration
}

// Violation is what an oracle reports. Class is a stable identifier.
type Violation struct {
	Prop   string
	Class  string
	Detail string
	Step   int
	Sig    map[string]string // scenario ingredients (for known-finding matching)
}

func (v *Violation) String() string {
	return fmt.Sprintf("property=%s class=%s step=%d: %s", v.Prop, v.Class, v.Step, v.Detail)
}

// ---------------------------------------------------------------------------

// HookAnswer is what a hook program (or a fault) answers.
type HookAnswer struct {
	Code   int
	Header map[string]string
	Body   []byte
	Err    bool // connection error
	Stall  bool // never answer (client times out)
}

// Policy steers the kernel's choices for a stage.
type Policy struct {
	Name      string
	Shuffle   bool // pick uniformly among enabled system actions instead of the eager order
	HoldWatch int  // permille: chance per step that watch frames are not deliverable this step
	// HoldStream: watch streams whose next frame is not deliverable for the time being (one
	// resource's watch is slow while the others keep up). Must not draw from the tape.
	HoldStream     func(w *World, ws *WatchStream) bool
	APIFault       int // permille per served in-sync request
	APIFaults      []string
	HoldHook       func(h *HookRec) bool // hook calls that are not answered for the time being
	HookFaultBurst bool                  // a hook fault in a co-release step hits every hook call released in that step
	HookFault      int                   // permille per answered hook call
	HookFaults     []string
	WatchBreak     int  // permille per step: break one open watch stream
	Crash          int  // permille per step
	EnvProb        int  // permille per step: run one environment operation if any is enabled
	AdvanceProb    int  // permille per step: advance the clock although other actions are enabled
	EnvWhenIdle    bool // quiet stages: environment operations run whenever the system is idle
	HardAdvance    bool // clock advances also age parked calls (slow server / webhook), by up to 1.5 s per step
	WatchGone      int  // permille per served WATCH request: answer 410 Gone, which makes the reflector relist (tombstones for what vanished meanwhile)
	FaultFilter    func(r *ReqRec) bool
	Batch          int // permille per step: answer every parked call in one step (co-release)
	// ForceFault, when it returns a fault kind, is injected whatever the rates say
	// (scripted bursts, e.g. a conflict on every attempt of one retry loop)
	ForceFault func(r *ReqRec) string
}

// EnvOp is one environment operation offered by the scenario.
type EnvOp struct {
	Name string
	Do   func(w *World)
}

// World is one run: durable store, recorded history, and the current incarnation.
type World struct {
	T     *Tape
	Store *Store
	Cfg   map[string]string // swarm configuration (recorded in replays / evidence)

	Log      []string
	step     int
	arrivals int

	Reqs    []*ReqRec
	Hooks   []*HookRec
	QEvents []QRec
	Errs    []ErrRec
	Panics  []string

	FaultsFired map[string]int
	Probes      map[string]int

	// hook programs: URL path prefix "/<controller>/" -> program
	HookProgram func(w *World, h *HookRec) HookAnswer

	// scenario hooks
	EnvOps     func(w *World) []EnvOp
	Invariants []func(w *World) *Violation
	OnBoot     func(w *World) // builds the metacontroller process inside the bubble

	Violation *Violation
	// KnownFindings are the open entries of known_findings.json: a violation that
	// matches one is counted in KnownSeen and the oracle keeps looking, so that a
	// listed finding never hides a different violation in the same run.
	KnownFindings []KnownFinding
	KnownSeen     map[string]int

	mu       sync.Mutex
	inc      int
	pendReq  []*ReqRec
	pendHook []*HookRec
	streams  []*WatchStream
	nextSID  int
	workers  map[int]*workerState // gid -> state (current incarnation)
	parentOf map[int]int
	asyncLog []string // observations made on system goroutines during the current step

	start      time.Time
	crashed    bool
	stopFns    []func()
	MaxSteps   int
	SimSeconds float64
	Incs       int
	idleHook   func(w *World)

	Cache CacheModel
	// Plan, when set, injects exactly one fault at the Pos-th interaction (API
	// request or hook call made inside a sync) served while the plan is armed.
	Plan         *FaultPlan
	Interactions []byte // reference runs: 'A' / 'H' per in-sync interaction served while armed
	OnCrash      func(w *World) *Violation
	PanicSig     func(w *World) map[string]string // signature of a recovered worker panic (known-finding matching)
	PanicProp    string
	// DiscoveryDown: "<group>/<version>" ("/v1" = core) whose discovery document is
	// answered 503 for the time being
	DiscoveryDown map[string]bool
	// ConnectedHook, when set, is asked by quiet stages in addition to the built-in
	// test "every live informer of the process has an open watch" (scenarios that run
	// an informer factory of their own)
	ConnectedHook func() bool
	// InlineUnsyncedHooks: see HookTransport.RoundTrip
	InlineUnsyncedHooks bool
	Stages              []Stage
	ss                  stageState
	fp                  *fpState
	raceBase            int
	// YieldPermille: chance that an inserted yield point (dst/simyield) hands the
	// processor to the other runnable goroutines; set by the scenario before the run starts
	YieldPermille  int
	ymu            sync.Mutex
	ycount, yields uint64
	ysalt          uint64
	c18seq         int   // C18: run-wide order of handler calls and completed operations (under mu)
	recBytes       int64 // bytes of request and hook bodies recorded so far (run-away growth guard)
	RaceProp       string
	lastSig        int
	budget         bool
	budgetAt       string
	ResyncHint     time.Duration // largest parent resync period configured (quiet-window computation)
	ExtraQuiet     time.Duration // scenario-declared extra delay sources (Retry-After, resyncAfterSeconds)
	Proc           *Proc
}

type workerState struct {
	queue  string
	seq    int
	active bool
}

type crashSignal struct{}

// FaultPlan is the single-fault plan of a fault-enumeration run.
type FaultPlan struct {
	Pos   int
	Kind  string // API: crash-before crash-after 404 409 exists 410 422 500 neterr lost; hook: 500 429 refused stall garbage crash
	Armed bool
	// Again: the same fault hits once more, at the next in-sync interaction of the same
	// method and path after the first one (a request that fails twice in a row, a
	// process that dies twice at the same spot)
	Again    bool
	count    int
	Fired    bool
	firedKey string
	Refired  bool
}

// planFault returns the fault kind to inject for the next in-sync interaction.
func (w *World) planFault(typ byte, key string) string {
	if w.Plan == nil {
		return ""
	}
	if !w.Plan.Armed {
		return ""
	}
	w.Interactions = append(w.Interactions, typ)
	defer func() { w.Plan.count++ }()
	if w.Plan.count == w.Plan.Pos && !w.Plan.Fired {
		w.Plan.Fired = true
		w.Plan.firedKey = key
		return w.Plan.Kind
	}
	if w.Plan.Again && w.Plan.Fired && !w.Plan.Refired && key == w.Plan.firedKey {
		w.Plan.Refired = true
		w.FaultsFired["plan:again"]++
		return w.Plan.Kind
	}
	return ""
}

func NewWorld(t *Tape) *World {
	return &World{
		T: t, Store: NewStore(), Cfg: map[string]string{},
		FaultsFired: map[string]int{}, Probes: map[string]int{},
		workers: map[int]*workerState{}, parentOf: map[int]int{},
		MaxSteps: 20000,
	}
}

func (w *World) Step() int { return w.step }
func (w *World) Inc() int  { return w.inc }

func (w *World) Probe(name string) { w.Probes[name]++ }

func (w *World) logf(format string, a ...interface{}) {
	w.Log = append(w.Log, fmt.Sprintf("%04d ", w.step)+fmt.Sprintf(format, a...))
}

// Now is the simulated time since the start of the incarnation's bubble.
func (w *World) Now() time.Duration { return time.Since(w.start) }

// ---------------------------------------------------------------------------
// goroutine identity

func curGid() int {
	var buf [64]byte
	n := runtime.Stack(buf[:], false)
	s := string(buf[:n])
	s = strings.TrimPrefix(s, "goroutine ")
	if i := strings.IndexByte(s, ' '); i > 0 {
		if v, err := strconv.Atoi(s[:i]); err == nil {
			return v
		}
	}
	return 0
}

func creatorGid() int {
	buf := make([]byte, 16384)
	for {
		n := runtime.Stack(buf, false)
		if n < len(buf) {
			buf = buf[:n]
			break
		}
		buf = make([]byte, 2*len(buf))
	}
	i := bytes.LastIndex(buf, []byte(" in goroutine "))
	if i < 0 {
		return 0
	}
	rest := buf[i+len(" in goroutine "):]
	j := 0
	for j < len(rest) && rest[j] >= '0' && rest[j] <= '9' {
		j++
	}
	v, _ := strconv.Atoi(string(rest[:j]))
	return v
}

// attribute returns (gid, root worker gid, sync seq, queue) for the calling goroutine.
func (w *World) attribute() (int, int, int, string) {
	gid := curGid()
	w.mu.Lock()
	ws := w.workers[gid]
	root := gid
	if ws == nil {
		p, ok := w.parentOf[gid]
		if !ok {
			w.mu.Unlock()
			p = creatorGid()
			w.mu.Lock()
			w.parentOf[gid] = p
		}
		root = p
		ws = w.workers[p]
	}
	defer w.mu.Unlock()
	if ws == nil || !ws.active {
		return gid, 0, -1, ""
	}
	return gid, root, ws.seq, ws.queue
}

// QueueEvent implements qm.Sink; it is called on the goroutine doing the queue operation.
func (w *World) QueueEvent(queue, kind string) {
	gid := curGid()
	w.mu.Lock()
	defer w.mu.Unlock()
	switch kind {
	case "get":
		ws := w.workers[gid]
		if ws == nil {
			ws = &workerState{queue: queue, seq: -1}
			w.workers[gid] = ws
		}
		ws.seq++
		ws.active = true
	case "done":
		if ws := w.workers[gid]; ws != nil {
			ws.active = false
		}
	}
	w.arrivals++
	w.QEvents = append(w.QEvents, QRec{Seq: w.arrivals, Step: w.step, Inc: w.inc, Queue: queue, Kind: kind, Gid: gid, Time: time.Since(w.start)})
	if traceQ {
		pcs := make([]uintptr, 40)
		n := runtime.Callers(2, pcs)
		fr := runtime.CallersFrames(pcs[:n])
		var names []string
		for {
			f, more := fr.Next()
			fn := f.Function
			if i := strings.LastIndex(fn, "/"); i >= 0 {
				fn = fn[i+1:]
			}
			names = append(names, fn)
			if !more {
				break
			}
		}
		w.asyncLog = append(w.asyncLog, fmt.Sprintf("q %s %s  [%03d gid=%d t=%v] %s", queue, kind, len(w.QEvents), gid, time.Since(w.start), strings.Join(names, " < ")))
	} else {
		w.asyncLog = append(w.asyncLog, "q "+queue+" "+kind)
	}
}

var traceQ = os.Getenv("DST_TRACEQ") != ""

// ReportError is installed as a utilruntime error handler.
func (w *World) ReportError(msg string) {
	gid := curGid()
	w.mu.Lock()
	defer w.mu.Unlock()
	w.arrivals++
	w.Errs = append(w.Errs, ErrRec{Sim: w.ss.clockBase + time.Since(w.start), Seq: w.arrivals, Step: w.step, Inc: w.inc, Gid: gid, Msg: msg, Time: time.Since(w.start)})
	w.asyncLog = append(w.asyncLog, "err")
}

// ReportPanic is installed as a utilruntime panic handler.
func (w *World) ReportPanic(msg string) {
	w.mu.Lock()
	defer w.mu.Unlock()
	w.Panics = append(w.Panics, msg)
	w.asyncLog = append(w.asyncLog, "panic")
}

// ---------------------------------------------------------------------------
// transports

// APITransport is the http.RoundTripper given to every Kubernetes client.
type APITransport struct{ W *World }

func (t *APITransport) RoundTrip(req *http.Request) (*http.Response, error) {
	w := t.W
	var body []byte
	if req.Body != nil {
		body, _ = io.ReadAll(req.Body)
		req.Body.Close()
	}
	gid, root, seq, queue := w.attribute()
	r := &ReqRec{
		Method: req.Method, Path: req.URL.Path, Query: req.URL.Query(), Body: body,
		ContentType: req.Header.Get("Content-Type"),
		Gid:         gid, Root: root, Sync: seq, Queue: queue,
		resp: make(chan rtAnswer, 1), ctxDone: req.Context().Done(),
	}
	r.sig = sigOf(r.Method, r.Path, r.Query, body)
	w.mu.Lock()
	w.recBytes += int64(len(body))
	if w.crashed {
		w.mu.Unlock()
		select {} // this process is dead
	}
	w.arrivals++
	r.Arrival = w.arrivals
	r.Inc = w.inc
	r.ParkStep = w.step
	w.pendReq = append(w.pendReq, r)
	w.mu.Unlock()
	select {
	case a := <-r.resp:
		if a.resp != nil {
			a.resp.Request = req
		}
		return a.resp, a.err
	case <-r.ctxDone:
		w.mu.Lock()
		r.cancelled = true
		w.mu.Unlock()
		return nil, req.Context().Err()
	}
}

// HookTransport replaces http.DefaultTransport: every webhook call parks here.
type HookTransport struct{ W *World }

func (t *HookTransport) RoundTrip(req *http.Request) (*http.Response, error) {
	w := t.W
	var body []byte
	if req.Body != nil {
		body, _ = io.ReadAll(req.Body)
		req.Body.Close()
	}
	gid, root, seq, queue := w.attribute()
	h := &HookRec{
		URL: req.URL.String(), ReqRaw: body, Header: req.Header.Clone(),
		Gid: gid, Root: root, Sync: seq, Queue: queue,
		resp: make(chan rtAnswer, 1), ctxDone: req.Context().Done(),
	}
	parts := strings.Split(strings.Trim(req.URL.Path, "/"), "/")
	if len(parts) >= 1 {
		h.Controller = parts[0]
	}
	if len(parts) >= 2 {
		h.Kind = parts[1]
	}
	if len(parts) >= 3 {
		h.Ver = parts[2]
	}
	h.Req, _ = parse(body)
	h.sig = fmt.Sprintf("HOOK %s #%x if-none-match=%q", h.URL, fnv64(body), req.Header.Get("If-None-Match"))
	if seq < 0 && w.InlineUnsyncedHooks {
		// A hook call made outside any sync comes from an informer event handler
		// (the customize manager asks the customize hook while the shared handler's
		// read lock is held). Parking it could leave another goroutine blocked on that
		// sync.RWMutex, which synctest does not count as durably blocked: the bubble
		// would never become quiescent. Such calls are answered at once, on the
		// calling goroutine, inside the kernel step that triggered them.
		w.mu.Lock()
		w.arrivals++
		h.Arrival = w.arrivals
		h.Inc = w.inc
		h.ParkStep = w.step
		h.Step = w.step
		h.ParkTime = time.Since(w.start)
		w.mu.Unlock()
		ans := w.HookProgram(w, h)
		w.mu.Lock()
		h.Answered = true
		h.Code, h.RespBody, h.RespHeader = ans.Code, ans.Body, ans.Header
		w.Hooks = append(w.Hooks, h)
		w.asyncLog = append(w.asyncLog, fmt.Sprintf("inline %s => %d #%x", h.sig, ans.Code, fnv64(ans.Body)))
		w.mu.Unlock()
		if ans.Err || ans.Stall {
			return nil, &simNetErr{"injected: connection refused"}
		}
		resp := httpResp(req, ans.Code, ans.Body, ans.Header)
		return resp, nil
	}
	w.mu.Lock()
	w.recBytes += int64(len(body))
	if w.crashed {
		w.mu.Unlock()
		select {}
	}
	w.arrivals++
	h.Arrival = w.arrivals
	h.Inc = w.inc
	h.ParkStep = w.step
	h.ParkTime = time.Since(w.start)
	w.pendHook = append(w.pendHook, h)
	w.mu.Unlock()
	select {
	case a := <-h.resp:
		if a.resp != nil {
			a.resp.Request = req
		}
		return a.resp, a.err
	case <-h.ctxDone:
		w.mu.Lock()
		h.cancelled = true
		w.mu.Unlock()
		return nil, req.Context().Err()
	}
}

type simNetErr struct{ msg string }

func (e *simNetErr) Error() string   { return e.msg }
func (e *simNetErr) Timeout() bool   { return false }
func (e *simNetErr) Temporary() bool { return false }

// ---------------------------------------------------------------------------
// serving

func verbOf(method string, p *parsedPath, q url.Values) string {
	if p.Discovery != "" {
		return "discovery"
	}
	switch method {
	case "GET":
		if p.Name == "" {
			if q.Get("watch") == "true" || q.Get("watch") == "1" {
				return "watch"
			}
			return "list"
		}
		return "get"
	case "POST":
		return "create"
	case "PUT":
		return "update"
	case "PATCH":
		return "patch"
	case "DELETE":
		return "delete"
	}
	return strings.ToLower(method)
}

// prepare fills the routing fields of a parked request (idempotent).
func (w *World) prepare(r *ReqRec) (*parsedPath, *StatusErr) {
	p, e := w.Store.route(r.Path)
	if e != nil {
		r.Verb = strings.ToLower(r.Method)
		return nil, e
	}
	r.Verb = verbOf(r.Method, p, r.Query)
	r.Res, r.NS, r.Name, r.Sub = p.Res, p.NS, p.Name, p.Sub
	return p, nil
}

func (w *World) answer(r *ReqRec, code int, body []byte, hdr map[string]string) {
	r.Code = code
	r.Answered = true
	r.Step = w.step
	r.resp <- rtAnswer{resp: httpResp(nil, code, body, hdr)}
}

func (w *World) answerErr(r *ReqRec, e *StatusErr) {
	var hdr map[string]string
	if e.Retry > 0 && !e.BodyRetryOnly {
		hdr = map[string]string{"Retry-After": strconv.Itoa(e.Retry)}
	}
	w.answer(r, e.Code, statusBody(e), hdr)
}

func (w *World) answerNetErr(r *ReqRec, msg string) {
	r.Code = 0
	r.Answered = true
	r.Step = w.step
	r.resp <- rtAnswer{err: &simNetErr{msg}}
}

// apply executes the request against the store. It returns the HTTP answer.
func (w *World) apply(r *ReqRec, p *parsedPath) (int, []byte, *WatchStream, *StatusErr) {
	s := w.Store
	if p.Discovery == "gv" && w.DiscoveryDown[p.Group+"/"+p.Version] {
		// an aggregated API that is unavailable for a while: discovery of this one
		// group-version fails, the others are served (client-go reports partial results)
		w.FaultsFired["discovery:group-version-unavailable"]++
		return 0, nil, nil, &StatusErr{Code: 503, Reason: "ServiceUnavailable", Message: "injected: the server is currently unable to handle the request"}
	}
	if p.Discovery != "" {
		b, e := s.discoveryDoc(p)
		if e != nil {
			return 0, nil, nil, e
		}
		return 200, b, nil, nil
	}
	res := p.Res
	if res.Namespaced && p.Name != "" && p.NS == "" {
		return 0, nil, nil, &StatusErr{Code: 404, Reason: "NotFound", Message: "the server could not find the requested resource"}
	}
	r.Pre = s.GetRaw(res, p.NS, p.Name)
	var out Object
	var e *StatusErr
	switch r.Verb {
	case "get":
		if p.Sub != "" && p.Sub != "status" {
			return 0, nil, nil, &StatusErr{Code: 404, Reason: "NotFound", Message: "the server could not find the requested resource"}
		}
		if r.Pre == nil {
			return 0, nil, nil, errNotFound(res, p.Name)
		}
		r.Post = r.Pre
		return 200, r.Pre, nil, nil
	case "list":
		rv := s.RV()
		items := s.List(res, p.NS)
		if p.NS == "" {
			w.Cache.list(w.step, w.inc, res, items)
		}
		return 200, listBody(res, items, rv), nil, nil
	case "watch":
		from := s.RV()
		if v := r.Query.Get("resourceVersion"); v != "" && v != "0" {
			n, err := strconv.ParseInt(v, 10, 64)
			if err != nil {
				return 0, nil, nil, errBadRequest("invalid resourceVersion")
			}
			from = n
			if from < s.compactRV {
				return 0, nil, nil, errGone(fmt.Sprintf("too old resource version: %d (%d)", from, s.compactRV))
			}
		}
		ws := &WatchStream{Res: res, NS: p.NS, body: newWatchBody(), OpenStep: w.step, Inc: w.inc, Delivered: from}
		ws.cursor = sort.Search(len(s.History), func(i int) bool { return s.History[i].RV > from })
		if v := r.Query.Get("resourceVersion"); v == "" || v == "0" {
			// no version given: synthetic ADDED for everything, then stream from now
			for _, o := range s.List(res, p.NS) {
				ws.body.ch <- watchFrame("ADDED", canon(o))
			}
		}
		return 200, nil, ws, nil
	case "create":
		if p.Name != "" {
			return 0, nil, nil, errMethod("POST on a named resource")
		}
		body, err := parse(r.Body)
		if err != nil {
			return 0, nil, nil, errBadRequest("cannot decode body: " + err.Error())
		}
		out, e = s.Create(res, p.NS, body, "mc")
		if e != nil {
			return 0, nil, nil, e
		}
		r.Name = mstr(out, "name")
		r.Applied = true
		r.Post = canon(out)
		return 201, r.Post, nil, nil
	case "update":
		if p.Name == "" {
			return 0, nil, nil, errMethod("PUT on a collection")
		}
		body, err := parse(r.Body)
		if err != nil {
			return 0, nil, nil, errBadRequest("cannot decode body: " + err.Error())
		}
		before := s.RV()
		out, e = s.Update(res, p.NS, p.Name, p.Sub, body, "mc")
		if e != nil {
			return 0, nil, nil, e
		}
		r.Applied = s.RV() != before
		r.Post = s.GetRaw(res, p.NS, p.Name)
		return 200, canon(out), nil, nil
	case "patch":
		if p.Name == "" {
			return 0, nil, nil, errMethod("PATCH on a collection")
		}
		before := s.RV()
		switch {
		case strings.HasPrefix(r.ContentType, "application/apply-patch"):
			body, err := parseYAMLish(r.Body)
			if err != nil {
				return 0, nil, nil, errBadRequest("cannot decode apply configuration: " + err.Error())
			}
			out, e = s.Apply(res, p.NS, p.Name, r.Query.Get("fieldManager"), body, "mc")
		case strings.HasPrefix(r.ContentType, "application/json-patch"):
			out, e = s.JSONPatch(res, p.NS, p.Name, r.Body, "mc")
		case strings.HasPrefix(r.ContentType, "application/merge-patch"):
			out, e = s.MergePatch(res, p.NS, p.Name, r.Body, "mc")
		default:
			return 0, nil, nil, &StatusErr{Code: 415, Reason: "UnsupportedMediaType", Message: "unsupported patch type " + r.ContentType}
		}
		if e != nil {
			return 0, nil, nil, e
		}
		r.Applied = s.RV() != before
		r.Post = s.GetRaw(res, p.NS, p.Name)
		code := 200
		if r.Pre == nil {
			code = 201
		}
		return code, canon(out), nil, nil
	case "delete":
		if p.Name == "" {
			return 0, nil, nil, errMethod("DELETE on a collection is not simulated")
		}
		before := s.RV()
		_, e = s.Delete(res, p.NS, p.Name, parseDeleteOpts(r.Body), "mc")
		if e != nil {
			return 0, nil, nil, e
		}
		r.Applied = s.RV() != before
		r.Post = s.GetRaw(res, p.NS, p.Name)
		return 200, canon(Object{"kind": "Status", "apiVersion": "v1", "metadata": Object{}, "status": "Success"}), nil, nil
	}
	return 0, nil, nil, errMethod("unsupported method " + r.Method)
}

func parseYAMLish(b []byte) (Object, error) { return parse(b) } // apply bodies sent by metacontroller are JSON

var apiFaultStatus = map[string]*StatusErr{
	"404":    {Code: 404, Reason: "NotFound", Message: "injected: not found"},
	"409":    {Code: 409, Reason: "Conflict", Message: "injected: the object has been modified"},
	"exists": {Code: 409, Reason: "AlreadyExists", Message: "injected: already exists"},
	"410":    {Code: 410, Reason: "Expired", Message: "injected: resource version too old"},
	"422":    {Code: 422, Reason: "Invalid", Message: "injected: invalid"},
	"500":    {Code: 500, Reason: "InternalError", Message: "injected: internal error"},
	"403":    {Code: 403, Reason: "Forbidden", Message: "injected: forbidden"},
	"503":    {Code: 503, Reason: "ServiceUnavailable", Message: "injected: the server is currently unable to handle the request"},
	"504":    {Code: 504, Reason: "Timeout", Message: "injected: request did not complete within the allotted time"},
	// the final answer of a request the server kept timing out on / throttling: the error
	// suggests a client delay (apierrors.SuggestsClientDelay), and client-go has given up retrying
	"servertimeout": {Code: 500, Reason: "ServerTimeout", Message: "injected: the server was unable to return a response in the time allotted", Retry: 2, BodyRetryOnly: true},
	"429":           {Code: 429, Reason: "TooManyRequests", Message: "injected: too many requests", Retry: 1, BodyRetryOnly: true},
}

// Serve answers one parked request, possibly with an injected fault.
func (w *World) Serve(r *ReqRec, fault string) {
	w.removePendingReq(r)
	p, e := w.prepare(r)
	r.Fault = fault
	if fault != "" {
		w.FaultsFired["api:"+fault]++
		if p != nil && p.Res != nil && p.Name != "" {
			// the state the request would have met (oracles classify failed requests by it)
			r.Pre = w.Store.GetRaw(p.Res, p.NS, p.Name)
		}
	}
	switch {
	case fault == "neterr":
		w.logf("serve %s => connection error", r.sig)
		w.answerNetErr(r, "injected: connection reset by peer")
		return
	case fault == "lost":
		// applied, response lost
		if e == nil {
			_, _, ws, _ := w.apply(r, p)
			if ws != nil {
				ws.body.Close()
			}
		}
		w.logf("serve %s => applied=%v, response lost", r.sig, r.Applied)
		w.answerNetErr(r, "injected: response lost")
		return
	case fault != "":
		fe := apiFaultStatus[fault]
		if fe == nil {
			panic("sim: unknown API fault " + fault)
		}
		if p != nil && p.Res != nil {
			r.Pre = w.Store.GetRaw(p.Res, p.NS, p.Name)
			r.Post = r.Pre
		}
		w.logf("serve %s => %d (injected)", r.sig, fe.Code)
		w.answerErr(r, fe)
		return
	}
	if e != nil {
		w.logf("serve %s => %d", r.sig, e.Code)
		w.answerErr(r, e)
		return
	}
	code, body, ws, e := w.apply(r, p)
	if e != nil {
		if r.Post == nil {
			r.Post = r.Pre
		}
		w.logf("serve %s => %d %s", r.sig, e.Code, e.Reason)
		w.answerErr(r, e)
		return
	}
	if ws != nil {
		w.nextSID++
		ws.ID = w.nextSID
		w.streams = append(w.streams, ws)
		r.Code = 200
		r.Answered = true
		r.Step = w.step
		resp := httpResp(nil, 200, nil, nil)
		resp.Body = ws.body
		resp.ContentLength = -1
		w.logf("serve %s => 200 watch#%d", r.sig, ws.ID)
		r.resp <- rtAnswer{resp: resp}
		return
	}
	w.logf("serve %s => %d rv=%d #%x", r.sig, code, w.Store.RV(), fnv64(body))
	w.answer(r, code, body, nil)
}

func (w *World) removePendingReq(r *ReqRec) {
	w.mu.Lock()
	defer w.mu.Unlock()
	for i, x := range w.pendReq {
		if x == r {
			w.pendReq = append(w.pendReq[:i], w.pendReq[i+1:]...)
			break
		}
	}
	w.Reqs = append(w.Reqs, r)
}

func (w *World) removePendingHook(h *HookRec) {
	w.mu.Lock()
	defer w.mu.Unlock()
	for i, x := range w.pendHook {
		if x == h {
			w.pendHook = append(w.pendHook[:i], w.pendHook[i+1:]...)
			break
		}
	}
	w.Hooks = append(w.Hooks, h)
}

// AnswerHook answers one parked webhook call.
func (w *World) AnswerHook(h *HookRec, a HookAnswer, fault string) {
	w.removePendingHook(h)
	h.Fault = fault
	h.Step = w.step
	h.Answered = true
	if fault != "" {
		w.FaultsFired["hook:"+fault]++
	}
	if a.Stall {
		h.Code = -1
		w.logf("hook %s => stalled", h.sig)
		return // never answered: the client's timeout fires when the clock advances
	}
	if a.Err {
		h.Code = 0
		w.logf("hook %s => connection refused", h.sig)
		h.resp <- rtAnswer{err: &simNetErr{"injected: connection refused"}}
		return
	}
	h.Code = a.Code
	h.RespBody = a.Body
	h.RespHeader = a.Header
	w.logf("hook %s => %d #%x", h.sig, a.Code, fnv64(a.Body))
	h.resp <- rtAnswer{resp: httpResp(nil, a.Code, a.Body, a.Header)}
}

// Deliver writes the next pending frame of a stream.
func (w *World) Deliver(ws *WatchStream) bool {
	h := w.Store.History
	for ws.cursor < len(h) {
		ev := &h[ws.cursor]
		ws.cursor++
		if ws.matches(ev) {
			select {
			case ws.body.ch <- watchFrame(ev.Type, ev.Raw):
			default:
				panic("sim: watch buffer overflow")
			}
			ws.Delivered = ev.RV
			w.Cache.event(w.step, w.inc, ev)
			w.logf("deliver watch#%d %s %s/%s rv=%d", ws.ID, ev.Type, ev.NS, ev.Name, ev.RV)
			return true
		}
	}
	return false
}

// NextFrame is the event a stream would deliver next (nil: nothing pending).
func (w *World) NextFrame(ws *WatchStream) *Event {
	if !w.streamPending(ws) {
		return nil
	}
	return &w.Store.History[ws.cursor]
}

func (w *World) streamPending(ws *WatchStream) bool {
	if ws.ended || ws.body.isClosed() {
		return false
	}
	h := w.Store.History
	for i := ws.cursor; i < len(h); i++ {
		if ws.matches(&h[i]) {
			return true
		}
		ws.cursor = i + 1
	}
	return false
}

// BreakWatch closes a stream from the server side.
func (w *World) BreakWatch(ws *WatchStream) {
	if ws.ended {
		return
	}
	ws.ended = true
	close(ws.body.ch)
	w.FaultsFired["watch:break"]++
	w.logf("break watch#%d", ws.ID)
}

// OpenStreams lists streams that are open from both sides.
func (w *World) OpenStreams() []*WatchStream {
	var out []*WatchStream
	for _, ws := range w.streams {
		if !ws.ended && !ws.body.isClosed() && ws.Inc == w.inc {
			out = append(out, ws)
		}
	}
	return out
}

// ---------------------------------------------------------------------------
// the kernel step

func (w *World) settle() {
	synctest.Wait()
	w.mu.Lock()
	if len(w.asyncLog) > 0 {
		sort.Strings(w.asyncLog)
		for _, l := range w.asyncLog {
			w.Log = append(w.Log, fmt.Sprintf("%04d  ~ %s", w.step, l))
		}
		w.asyncLog = w.asyncLog[:0]
	}
	// drop cancelled parked calls
	pr := w.pendReq[:0]
	for _, r := range w.pendReq {
		if r.cancelled {
			r.Fault = "cancelled"
			r.Step = w.step
			w.Reqs = append(w.Reqs, r)
			continue
		}
		pr = append(pr, r)
	}
	w.pendReq = pr
	ph := w.pendHook[:0]
	for _, h := range w.pendHook {
		if h.cancelled {
			h.Fault = "cancelled"
			h.Step = w.step
			w.Hooks = append(w.Hooks, h)
			continue
		}
		ph = append(ph, h)
	}
	w.pendHook = ph
	sort.SliceStable(w.pendReq, func(i, j int) bool {
		if w.pendReq[i].sig != w.pendReq[j].sig {
			return w.pendReq[i].sig < w.pendReq[j].sig
		}
		return w.pendReq[i].Arrival < w.pendReq[j].Arrival
	})
	sort.SliceStable(w.pendHook, func(i, j int) bool {
		if w.pendHook[i].sig != w.pendHook[j].sig {
			return w.pendHook[i].sig < w.pendHook[j].sig
		}
		return w.pendHook[i].Arrival < w.pendHook[j].Arrival
	})
	w.mu.Unlock()
}

// PendingReqs returns the parked API requests in canonical order.
func (w *World) PendingReqs() []*ReqRec {
	w.mu.Lock()
	defer w.mu.Unlock()
	return append([]*ReqRec(nil), w.pendReq...)
}

// PendingHooks returns the parked hook calls in canonical order.
func (w *World) PendingHooks() []*HookRec {
	w.mu.Lock()
	defer w.mu.Unlock()
	return append([]*HookRec(nil), w.pendHook...)
}

// Idle reports whether nothing can happen without the clock moving.
func (w *World) Idle() bool {
	if len(w.PendingReqs()) > 0 || len(w.PendingHooks()) > 0 {
		return false
	}
	for _, ws := range w.OpenStreams() {
		if w.streamPending(ws) {
			return false
		}
	}
	return true
}

// InSync reports whether any worker is inside a sync.
func (w *World) InSync() bool {
	w.mu.Lock()
	defer w.mu.Unlock()
	for _, ws := range w.workers {
		if ws.active {
			return true
		}
	}
	return false
}

func (w *World) checkInvariants() {
	if w.Violation != nil {
		return
	}
	if len(w.Panics) > 0 {
		v := &Violation{Class: "worker-panic", Detail: w.Panics[0], Step: w.step}
		if w.PanicSig != nil {
			v.Sig = w.PanicSig(w)
			v.Prop = w.PanicProp
		}
		if v.Prop != "" && w.Known(v) {
			w.Panics = nil // a listed finding: keep looking for other violations
			return
		}
		w.Violation = v
		return
	}
	if v := w.checkRace(); v != nil && !w.Known(v) {
		w.Violation = v
		return
	}
	for _, inv := range w.Invariants {
		if v := inv(w); v != nil && !w.Known(v) {
			if v.Step == 0 {
				v.Step = w.step
			}
			w.Violation = v
			return
		}
	}
}

type action struct {
	kind string
	req  *ReqRec
	hook *HookRec
	ws   *WatchStream
}

// StepOnce performs one kernel step under policy p. It returns false when the
// step budget is exhausted or a violation was found.
func (w *World) StepOnce(p *Policy) bool {
	if w.Violation != nil || w.step >= w.MaxSteps {
		return false
	}
	w.bumpStep()
	w.Store.Step = w.step
	t := w.T

	if p.Crash > 0 && t.Chance(p.Crash, "crash") {
		w.FaultsFired["crash"]++
		w.logf("CRASH")
		panic(crashSignal{})
	}
	if p.EnvProb > 0 && w.EnvOps != nil && t.Chance(p.EnvProb, "env?") {
		ops := w.EnvOps(w)
		if len(ops) > 0 {
			op := ops[t.Pick(len(ops), "env")]
			w.logf("env %s", op.Name)
			op.Do(w)
			w.settle()
			w.checkInvariants()
			return w.Violation == nil
		}
	}
	if p.WatchBreak > 0 && t.Chance(p.WatchBreak, "watchbreak?") {
		if os := w.OpenStreams(); len(os) > 0 {
			w.BreakWatch(os[t.Pick(len(os), "watchbreak")])
			w.settle()
			w.checkInvariants()
			return w.Violation == nil
		}
	}

	var acts []action
	hold := p.HoldWatch > 0 && t.Chance(p.HoldWatch, "holdwatch")
	if !hold {
		for _, ws := range w.OpenStreams() {
			if w.streamPending(ws) {
				if p.HoldStream != nil && p.HoldStream(w, ws) {
					w.Probes["watch-frame-held-back"]++
					continue
				}
				acts = append(acts, action{kind: "deliver", ws: ws})
			}
		}
	}
	for _, r := range w.PendingReqs() {
		acts = append(acts, action{kind: "serve", req: r})
	}
	for _, h := range w.PendingHooks() {
		if p.HoldHook != nil && p.HoldHook(h) {
			continue // the webhook is taking its time over this one
		}
		acts = append(acts, action{kind: "hook", hook: h})
	}
	if len(acts) == 0 || (p.AdvanceProb > 0 && t.Chance(p.AdvanceProb, "advance?")) {
		w.advance(p, len(acts) == 0)
		w.settle()
		w.checkInvariants()
		return w.Violation == nil
	}
	a := acts[0]
	if p.Shuffle {
		a = acts[t.Pick(len(acts), "which")]
	}
	if p.Batch > 0 && a.kind != "deliver" && t.Chance(p.Batch, "batch?") {
		// co-release: every parked call is answered within this one step, so the
		// released goroutines run concurrently with no kernel step (and no
		// happens-before edge) between them
		n := 0
		burst := ""
		for _, b := range acts {
			switch b.kind {
			case "serve":
				fault := ""
				if p.FaultFilter != nil {
					w.prepare(b.req)
				}
				if p.APIFault > 0 && len(p.APIFaults) > 0 && (p.FaultFilter == nil || p.FaultFilter(b.req)) && t.Chance(p.APIFault, "apifault?") {
					fault = p.APIFaults[t.Pick(len(p.APIFaults), "apifault")]
				}
				w.Serve(b.req, fault)
				n++
			case "hook":
				fault := burst
				if fault == "" && p.HookFault > 0 && len(p.HookFaults) > 0 && t.Chance(p.HookFault, "hookfault?") {
					fault = p.HookFaults[t.Pick(len(p.HookFaults), "hookfault")]
					if p.HookFaultBurst {
						// the webhook is down: every other call released in this step fails, too
						burst = fault
						w.FaultsFired["hook:burst"]++
					}
				}
				w.answerHookWithProgram(b.hook, fault)
				n++
			}
		}
		if n > 1 {
			w.FaultsFired["co-release"]++
			w.Probes["co-released-calls"] += n
		}
		w.settle()
		w.checkInvariants()
		return w.Violation == nil
	}
	switch a.kind {
	case "deliver":
		w.Deliver(a.ws)
	case "serve":
		fault := ""
		if a.req.Sync >= 0 {
			switch k := w.planFault('A', a.req.Method+" "+a.req.Path); k {
			case "":
			case "crash-before":
				w.FaultsFired["plan:crash-before"]++
				w.logf("CRASH before %s", a.req.sig)
				panic(crashSignal{})
			case "crash-after":
				w.FaultsFired["plan:crash-after"]++
				w.Serve(a.req, "lost")
				w.logf("CRASH after %s", a.req.sig)
				panic(crashSignal{})
			default:
				w.FaultsFired["plan:"+k]++
				w.Serve(a.req, k)
				w.settle()
				w.checkInvariants()
				return w.Violation == nil
			}
		}
		if p.WatchGone > 0 && a.req.Method == "GET" && a.req.Query.Get("watch") == "true" && t.Chance(p.WatchGone, "watchgone?") {
			w.FaultsFired["watch:410-relist"]++
			w.Serve(a.req, "410")
			w.settle()
			w.checkInvariants()
			return w.Violation == nil
		}
		if p.FaultFilter != nil || p.ForceFault != nil {
			w.prepare(a.req) // the filter may look at the routed fields (verb, resource)
		}
		if p.ForceFault != nil {
			if k := p.ForceFault(a.req); k != "" {
				w.Serve(a.req, k)
				w.settle()
				w.checkInvariants()
				return w.Violation == nil
			}
		}
		if p.APIFault > 0 && len(p.APIFaults) > 0 && (p.FaultFilter == nil || p.FaultFilter(a.req)) && t.Chance(p.APIFault, "apifault?") {
			fault = p.APIFaults[t.Pick(len(p.APIFaults), "apifault")]
		}
		w.Serve(a.req, fault)
	case "hook":
		fault := ""
		if a.hook.Sync >= 0 {
			switch k := w.planFault('H', a.hook.URL); k {
			case "":
			case "crash":
				w.FaultsFired["plan:hook-crash"]++
				w.logf("CRASH during %s", a.hook.sig)
				panic(crashSignal{})
			default:
				w.FaultsFired["plan:hook-"+k]++
				w.answerHookWithProgram(a.hook, k)
				w.settle()
				w.checkInvariants()
				return w.Violation == nil
			}
		}
		if p.HookFault > 0 && len(p.HookFaults) > 0 && t.Chance(p.HookFault, "hookfault?") {
			fault = p.HookFaults[t.Pick(len(p.HookFaults), "hookfault")]
		}
		w.answerHookWithProgram(a.hook, fault)
	}
	w.settle()
	w.checkInvariants()
	return w.Violation == nil
}

func (w *World) answerHookWithProgram(h *HookRec, fault string) {
	var ans HookAnswer
	switch fault {
	case "":
		ans = w.HookProgram(w, h)
	case "500":
		ans = HookAnswer{Code: 500, Body: []byte("injected: internal error")}
	case "503":
		ans = HookAnswer{Code: 503, Body: []byte("injected: unavailable")}
	case "429":
		ans = HookAnswer{Code: 429, Header: map[string]string{"Retry-After": "7"}, Body: []byte("slow down")}
	case "refused":
		ans = HookAnswer{Err: true}
	case "stall":
		ans = HookAnswer{Stall: true}
	case "garbage":
		ans = HookAnswer{Code: 200, Body: []byte("{\"children\": [")}
	default:
		panic("sim: unknown hook fault " + fault)
	}
	w.AnswerHook(h, ans, fault)
}

var advanceSteps = []time.Duration{
	time.Millisecond, 5 * time.Millisecond, 20 * time.Millisecond, 100 * time.Millisecond,
	500 * time.Millisecond, 2 * time.Second, 11 * time.Second, 61 * time.Second,
}

var hardSteps = []time.Duration{10 * time.Millisecond, 100 * time.Millisecond, 500 * time.Millisecond, time.Second, 1500 * time.Millisecond}

func (w *World) advance(p *Policy, idle bool) {
	if p.HardAdvance && !idle {
		w.SleepHard(hardSteps[w.T.Pick(len(hardSteps), "hardadvance")])
		return
	}
	d := advanceSteps[w.T.Pick(len(advanceSteps), "advance")]
	if idle && d < 20*time.Millisecond {
		d = 20 * time.Millisecond
	}
	w.Sleep(d)
}

// Sleep advances the simulated clock by up to d. The clock moves in small
// quanta and stops as soon as a goroutine has parked a request: a parked call
// never ages by more than one quantum (well below every timeout in the system)
// unless a policy decides to delay it.
func (w *World) Sleep(d time.Duration) {
	q := d / 64
	if q < 10*time.Millisecond {
		q = 10 * time.Millisecond
	}
	if q > 400*time.Millisecond {
		q = 400 * time.Millisecond
	}
	var slept time.Duration
	for slept < d {
		x := q
		if d-slept < x {
			x = d - slept
		}
		time.Sleep(x)
		slept += x
		synctest.Wait()
		if len(w.PendingReqs()) > 0 || len(w.PendingHooks()) > 0 {
			break
		}
	}
	w.logf("advance %v", slept)
	w.SimSeconds += slept.Seconds()
}

// SleepHard advances the clock by exactly d even while calls are parked (used
// by fault policies that model a slow server or webhook).
func (w *World) SleepHard(d time.Duration) {
	w.logf("advance! %v", d)
	w.SimSeconds += d.Seconds()
	time.Sleep(d)
}

// DumpStore renders the stored objects whose kind contains filter ("all" = everything).
func (w *World) DumpStore(filter string) string {
	var b strings.Builder
	for _, k := range w.Store.AllKeys() {
		if filter != "all" && !strings.Contains(strings.ToLower(k.res), strings.ToLower(filter)) {
			continue
		}
		fmt.Fprintf(&b, "%s %s\n", k, w.Store.objs[k].raw)
	}
	return b.String()
}

// AbstractState is a hash of the final cluster abstracted from identities that
// do not matter (resourceVersions, timestamps): kind, namespace, name,
// controller owner, labels, finalizers, deletion state and spec/data hash.
func (w *World) AbstractState() string {
	h := uint64(14695981039346656037)
	mix := func(s string) {
		for i := 0; i < len(s); i++ {
			h ^= uint64(s[i])
			h *= 1099511628211
		}
		h ^= 0xff
		h *= 1099511628211
	}
	for _, k := range w.Store.AllKeys() {
		o := w.Store.objs[k].obj
		mix(k.String())
		if c := controllerOf(o); c != nil {
			mix(c.Kind + "/" + c.Name)
		}
		mix(jsonString(metaRO(o)["labels"]))
		mix(jsonString(metaRO(o)["finalizers"]))
		if metaRO(o)["deletionTimestamp"] != nil {
			mix("deleting")
		}
		mix(string(specPart(o)))
	}
	return fmt.Sprintf("%016x", h)
}

// CountWrites is the number of mutating requests metacontroller got applied.
func (w *World) CountWrites() int {
	n := 0
	for _, r := range w.Reqs {
		if r.IsWrite() && r.Applied {
			n++
		}
	}
	return n
}

// ShortLog renders up to n interesting lines of the event log (no clock moves, no queue noise).
func (w *World) ShortLog(n int) []string {
	var out []string
	for _, l := range w.Log {
		if strings.Contains(l, " advance ") || strings.Contains(l, "  ~ q ") || strings.Contains(l, "/api?") || strings.Contains(l, "/apis?") || strings.Contains(l, "/v1? ") || strings.Contains(l, "/v1beta1? ") || strings.Contains(l, "/v1alpha1? ") {
			continue
		}
		if len(l) > 200 {
			l = l[:200]
		}
		out = append(out, l)
		if len(out) >= n {
			break
		}
	}
	return out
}

// KnownFinding is one open entry of known_findings.json.
type KnownFinding struct {
	Property  string            `json:"property"`
	State     string            `json:"state"`
	Class     string            `json:"class"`
	Signature map[string]string `json:"signature"`
	What      string            `json:"what"`
}

// Known reports whether v matches an open known finding (and counts it).
func (w *World) Known(v *Violation) bool {
	for i := range w.KnownFindings {
		f := &w.KnownFindings[i]
		if f.State != "open" || f.Property != v.Prop || f.Class != v.Class {
			continue
		}
		ok := true
		for k, val := range f.Signature {
			if v.Sig[k] != val {
				ok = false
			}
		}
		if ok {
			if w.KnownSeen == nil {
				w.KnownSeen = map[string]int{}
			}
			w.KnownSeen[fmt.Sprintf("property=%s %s", f.Property, f.What)]++
			return true
		}
	}
	return false
}

// bumpStep starts the next kernel step (other goroutines read the step under w.mu).
func (w *World) bumpStep() {
	w.mu.Lock()
	w.step++
	w.mu.Unlock()
}

// yieldPoint is the hook of dst/simyield for this run. The decision is a function
// of the run's salt and of how many yield points have been passed so far; since
// everything else in a run is deterministic, so is that count.
func (w *World) yieldPoint() {
	w.ymu.Lock()
	w.ycount++
	x := mix64(w.ysalt ^ (w.ycount * 0x9e3779b97f4a7c15))
	yield := int(x%1000) < w.YieldPermille
	if yield {
		w.yields++
	}
	w.ymu.Unlock()
	if yield {
		// one Gosched lets every goroutine that is runnable now run once; work that is
		// handed from goroutine to goroutine (watch decoder -> reflector -> informer ->
		// listener) needs several rounds to get anywhere, so the yield lasts 1..32 rounds
		for i := 0; i < 1<<((x>>10)%6); i++ {
			runtime.Gosched()
		}
	}
}
