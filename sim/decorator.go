package sim

import (
	"fmt"
	"sort"
	"strings"
)

// DecoratorResourceRule is one spec.resources entry.
type DecoratorResourceRule struct {
	Res                *Resource
	LabelSelector      Object
	AnnotationSelector Object
	IgnoreStatus       bool
}

// DecoratorCfg describes one DecoratorController object.
type DecoratorCfg struct {
	Name          string
	Resources     []DecoratorResourceRule
	Attachments   []ChildRule
	Finalize      bool
	Customize     bool
	ResyncSeconds int
	Ver           int
	NoHooks       bool
}

func (c *DecoratorCfg) Object() Object {
	var rs []interface{}
	for _, r := range c.Resources {
		o := Object{"apiVersion": r.Res.APIVersion(), "resource": r.Res.Plural}
		if r.LabelSelector != nil {
			o["labelSelector"] = r.LabelSelector
		}
		if r.AnnotationSelector != nil {
			o["annotationSelector"] = r.AnnotationSelector
		}
		if r.IgnoreStatus {
			o["ignoreStatusChanges"] = true
		}
		rs = append(rs, o)
	}
	var as []interface{}
	for _, a := range c.Attachments {
		o := Object{"apiVersion": a.Res.APIVersion(), "resource": a.Res.Plural}
		if a.Method != "" {
			o["updateStrategy"] = Object{"method": a.Method}
		}
		as = append(as, o)
	}
	spec := Object{"resources": rs}
	if len(as) > 0 {
		spec["attachments"] = as
	}
	if !c.NoHooks {
		hooks := Object{"sync": webhook(c.Name, "sync", c.Ver, false, false, 0)}
		if c.Finalize {
			hooks["finalize"] = webhook(c.Name, "finalize", c.Ver, false, false, 0)
		}
		if c.Customize {
			hooks["customize"] = webhook(c.Name, "customize", c.Ver, false, false, 0)
		}
		spec["hooks"] = hooks
	}
	if c.ResyncSeconds > 0 {
		spec["resyncPeriodSeconds"] = int64(c.ResyncSeconds)
	}
	return Object{"apiVersion": "metacontroller.k8s.io/v1alpha1", "kind": "DecoratorController", "metadata": Object{"name": c.Name}, "spec": spec}
}

func (c *DecoratorCfg) FinalizerName() string {
	return "metacontroller.io/decoratorcontroller-" + c.Name
}
func (c *DecoratorCfg) QueueName() string { return "DecoratorController-" + c.Name }
func (c *DecoratorCfg) Marker() (string, string) {
	return "metacontroller.k8s.io/decorator-controller", c.Name
}

func (c *DecoratorCfg) AttachmentRule(res *Resource) *ChildRule {
	for i := range c.Attachments {
		if c.Attachments[i].Res == res {
			return &c.Attachments[i]
		}
	}
	return nil
}

func (c *DecoratorCfg) ResourceRule(res *Resource) *DecoratorResourceRule {
	for i := range c.Resources {
		if c.Resources[i].Res == res {
			return &c.Resources[i]
		}
	}
	return nil
}

// Selects reports whether the decorator's rule for the object's resource selects it.
func (c *DecoratorCfg) Selects(res *Resource, o Object) bool {
	r := c.ResourceRule(res)
	if r == nil {
		return false
	}
	if r.LabelSelector != nil && !selectorMatches(r.LabelSelector, labelsOf(o)) {
		return false
	}
	if r.AnnotationSelector != nil {
		sel := Object{"matchLabels": r.AnnotationSelector["matchAnnotations"], "matchExpressions": r.AnnotationSelector["matchExpressions"]}
		if !selectorMatches(sel, annotationsOf(o)) {
			return false
		}
	}
	return true
}

// DecorateProgram is the hook program family for decorators. Everything it does is
// a function of the target object: spec.decorate.{labels,annotations,statusMode},
// spec.replicas (number of attachments) and spec.color.
type DecorateProgram struct {
	Kinds      []*Resource
	Tag        string // distinguishes several decorators on one target
	PlainOwner bool   // attachments carry a plain (non-controller) ownerReference to the target
	// FinalizeAtOnce: the finalize answer is finalized:true with no attachments straight away
	FinalizeAtOnce bool
	// FinalizeKeep: the finalize answer is finalized:true and still lists the attachments
	// as the sync answer does ("done; leave them as they are")
	FinalizeKeep bool
	// ResyncOnce: the first answer about a target asks to be called again after so many
	// seconds (resyncAfterSeconds) and marks the target with an annotation; answers
	// about a marked target do not ask again
	ResyncOnce float64
}

func (dp *DecorateProgram) attachments(req Object) []Object {
	obj := getMap(req, "object")
	n := int(getInt(obj, "spec", "replicas"))
	var out []Object
	for ki, k := range dp.Kinds {
		for i := 0; i < n; i++ {
			name := fmt.Sprintf("%s-%s%d-%d", mstr(obj, "name"), dp.Tag, ki, i)
			md := Object{"name": name, "labels": Object{"decorated-by": dp.Tag}}
			if dp.PlainOwner && mstr(obj, "uid") != "" {
				md["ownerReferences"] = []interface{}{Object{"apiVersion": obj["apiVersion"], "kind": obj["kind"], "name": mstr(obj, "name"), "uid": mstr(obj, "uid")}}
			}
			o := Object{"apiVersion": k.APIVersion(), "kind": k.Kind, "metadata": md,
				childContentField(k): Object{"color": getPath(obj, "spec", "color"), "idx": int64(i)}}
			if k.Namespaced && mstr(obj, "namespace") == "" {
				md["namespace"] = "ns1"
			}
			out = append(out, o)
		}
	}
	return out
}

func (dp *DecorateProgram) Sync(req Object) Object {
	obj := getMap(req, "object")
	resp := Object{"attachments": toList(dp.attachments(req))}
	dec := getMap(obj, "spec", "decorate")
	if l := getMap(dec, "labels"); l != nil {
		resp["labels"] = l
	}
	if a := getMap(dec, "annotations"); a != nil {
		resp["annotations"] = a
	}
	switch getStr(dec, "statusMode") {
	case "", "null":
	default:
		total := 0
		for _, k := range dp.Kinds {
			total += len(observedOf(req, "attachments", k))
		}
		resp["status"] = Object{"decorated": dp.Tag, "attachments": int64(total), "mode": getStr(dec, "statusMode")}
	}
	if dp.ResyncOnce > 0 {
		key := "resync-asked-" + dp.Tag
		ann := Object{}
		if a, ok := resp["annotations"].(map[string]interface{}); ok {
			for k, v := range a {
				ann[k] = v
			}
		}
		if getStr(obj, "metadata", "annotations", key) != "yes" {
			resp["resyncAfterSeconds"] = dp.ResyncOnce
		}
		ann[key] = "yes"
		resp["annotations"] = ann
	}
	return resp
}

func (dp *DecorateProgram) Finalize(req Object) Object {
	total := 0
	for _, k := range dp.Kinds {
		total += len(observedOf(req, "attachments", k))
	}
	resp := dp.Sync(req)
	if dp.FinalizeKeep {
		resp["finalized"] = true
		return resp
	}
	resp["attachments"] = []interface{}{}
	resp["finalized"] = total == 0 || dp.FinalizeAtOnce
	return resp
}

// DSetup is a generated decorator scenario.
type DSetup struct {
	W       *World
	Cfgs    []*DecoratorCfg
	Progs   Programs
	Targets []ParentRef
	Opts    *BootOptions
	Sig     map[string]string
}

// NewTarget renders a decorator target.
func NewTarget(res *Resource, ns, name string, replicas int, lbls, anns map[string]string) Object {
	md := Object{"name": name}
	if res.Namespaced {
		md["namespace"] = ns
	}
	if len(lbls) > 0 {
		l := Object{}
		for k, v := range lbls {
			l[k] = v
		}
		md["labels"] = l
	}
	if len(anns) > 0 {
		a := Object{}
		for k, v := range anns {
			a[k] = v
		}
		md["annotations"] = a
	}
	content := "spec"
	if res == ResConfigMap {
		content = "data"
	}
	o := Object{"apiVersion": res.APIVersion(), "kind": res.Kind, "metadata": md,
		content: Object{"replicas": int64(replicas), "color": "c0", "own": "user-data",
			"decorate": Object{"labels": Object{"added": "yes"}, "annotations": Object{"note": "by-hook"}, "statusMode": "set"}}}
	return o
}

type DGenOpts struct {
	PlainOwner    bool // allow programs whose attachments carry a plain ownerReference to the target
	Keep          bool // allow finalize programs that answer finalized:true and keep listing the attachments
	AtOnce        bool // allow finalize programs that answer finalized:true with no attachments straight away
	ResyncOnce    bool // allow programs that ask once per target to be called again later (resyncAfterSeconds)
	MaxDecorators int
	Finalize      int // 0 draw, 1 always, -1 never
	MaxWorkers    int
	TargetKinds   []*Resource
}

// NewDecoratorSetup draws 1-2 decorators sharing targets, with selectors and attachments.
func NewDecoratorSetup(w *World, g DGenOpts) *DSetup {
	t := w.T
	InstallUniverse(w)
	ds := &DSetup{W: w, Progs: Programs{}, Opts: &BootOptions{}}
	kinds := g.TargetKinds
	if len(kinds) == 0 {
		kinds = []*Resource{ResTarget, ResBareTarget}
	}
	tres := kinds[t.Pick(len(kinds), "targetkind")]
	nd := 1
	if g.MaxDecorators > 1 {
		nd = 1 + t.Pick(g.MaxDecorators, "ndecorators")
	}
	attKinds := []*Resource{ResConfigMap, ResWidget, ResGadget}
	for i := 0; i < nd; i++ {
		c := &DecoratorCfg{Name: fmt.Sprintf("dc%d", i), Ver: 1}
		rule := DecoratorResourceRule{Res: tres}
		switch t.Pick(4, "dsel") {
		case 1:
			rule.LabelSelector = Object{"matchLabels": Object{"decorate": "yes"}}
		case 2:
			rule.AnnotationSelector = Object{"matchAnnotations": Object{"decorate": "yes"}}
		case 3:
			rule.LabelSelector = Object{"matchExpressions": []interface{}{Object{"key": "decorate", "operator": "In", "values": []interface{}{"yes", "also"}}}}
			rule.AnnotationSelector = Object{"matchExpressions": []interface{}{Object{"key": "skip", "operator": "DoesNotExist"}}}
		}
		c.Resources = []DecoratorResourceRule{rule}
		ak := attKinds[t.Pick(len(attKinds), "attkind")]
		c.Attachments = []ChildRule{{Res: ak, Method: []string{"InPlace", "", "Recreate", "OnDelete"}[t.Pick(4, "attmethod")]}}
		switch g.Finalize {
		case 0:
			c.Finalize = t.Pick(3, "dfinalize") == 2
		case 1:
			c.Finalize = true
		}
		if t.Pick(4, "dresync") == 3 {
			c.ResyncSeconds = 5 + 10*t.Pick(3, "dresyncs")
		}
		ds.Cfgs = append(ds.Cfgs, c)
		ds.Opts.Decorators = append(ds.Opts.Decorators, c)
		dp := &DecorateProgram{Kinds: []*Resource{ak}, Tag: c.Name, PlainOwner: g.PlainOwner && t.Pick(6, "plainowner") == 5}
		dp.FinalizeAtOnce = g.AtOnce && t.Pick(3, "atonce") == 2
		if g.Keep && t.Pick(3, "finalizekeep") == 2 {
			dp.FinalizeKeep = true
			w.Cfg["finalizeKeeps-"+c.Name] = "true"
		}
		if g.ResyncOnce && t.Pick(3, "resynconce") == 2 {
			dp.ResyncOnce = []float64{2, 8}[t.Pick(2, "resyncafter")]
			w.ExtraQuiet = 10e9 // rest is judged only after the delayed key has come back
			w.Cfg["resyncAfterSeconds"] = fmt.Sprint(dp.ResyncOnce)
		}
		ds.Progs[c.Name] = &Program{Sync: dp.Sync, Finalize: dp.Finalize}
		mustCreate(w.Store, ResDecoratorCtl, "", c.Object(), "setup")
	}
	mw := g.MaxWorkers
	if mw == 0 {
		mw = 2
	}
	ds.Opts.Proc.Workers = 1 + t.Pick(mw, "workers")
	w.HookProgram = ds.Progs.Answer
	StandardBoot(w, ds.Opts)
	nt := 1 + t.Pick(3, "ntargets")
	for i := 0; i < nt; i++ {
		name := fmt.Sprintf("t%d", i)
		ns := Namespaces[t.Pick(2, "tns")]
		lbls, anns := map[string]string{"own-label": "keep"}, map[string]string{"own-annotation": "keep"}
		switch t.Pick(4, "tsel") {
		case 0:
			lbls["decorate"] = "yes"
			anns["decorate"] = "yes"
		case 1:
			lbls["decorate"] = "yes"
		case 2:
			anns["decorate"] = "yes"
			anns["skip"] = "1"
		}
		o := NewTarget(tres, ns, name, t.Pick(3, "treplicas"), lbls, anns)
		if t.Pick(3, "foreignfin") == 2 {
			setPath(o, []interface{}{"example.com/foreign"}, "metadata", "finalizers")
		}
		mustCreate(w.Store, tres, ns, o, "user")
		ds.Targets = append(ds.Targets, ParentRef{tres, ns, name})
	}
	ds.Sig = map[string]string{"controller": "decorator", "target": tres.Kind, "statusSubresource": fmt.Sprint(tres.Status), "decorators": fmt.Sprint(nd)}
	w.Cfg["target"] = tres.Kind
	w.Cfg["decorators"] = fmt.Sprint(nd)
	w.Cfg["workers"] = fmt.Sprint(ds.Opts.Proc.Workers)
	var desc []string
	for _, c := range ds.Cfgs {
		desc = append(desc, fmt.Sprintf("%s:%s:%s fin=%v", c.Name, c.Attachments[0].Res.Kind, c.Attachments[0].Method, c.Finalize))
	}
	sort.Strings(desc)
	w.Cfg["dcs"] = strings.Join(desc, " ")
	return ds
}

func contentField(res *Resource) string {
	if res == ResConfigMap || res == ResSecret {
		return "data"
	}
	return "spec"
}

// TargetEdits offers user edits of the targets: decoration parameters, selectors, spec.
func (ds *DSetup) TargetEdits(b *EnvBudget) []EnvOp {
	if b.Left <= 0 {
		return nil
	}
	var ops []EnvOp
	for _, p := range ds.Targets {
		p := p
		if p.Get(ds.W) == nil {
			continue
		}
		f := contentField(p.Res)
		ops = append(ops,
			EnvOp{"t-labels " + p.Name, func(w *World) {
				b.take()
				variants := []Object{
					{"added": "yes", "extra": fmt.Sprint(w.step)},
					{"added": nil, "own-label": nil},
					{"own-label": "overwritten"},
					{},
					// a hook that keeps sending nulls for keys the target never had, next to a key that changes
					{"added": "yes", "extra": fmt.Sprint(w.step), "legacy-1": nil, "legacy-2": nil, "legacy-3": nil, "legacy-4": nil, "legacy-5": nil},
				}
				v := variants[w.T.Pick(len(variants), "labelvariant")]
				EditObject(w, p.Res, p.NS, p.Name, "user", func(o Object) {
					setPath(o, v, f, "decorate", "labels")
					setPath(o, v, f, "decorate", "annotations")
				})
			}},
			EnvOp{"t-statusmode " + p.Name, func(w *World) {
				b.take()
				m := []string{"null", "set", "other"}[w.T.Pick(3, "statusmode")]
				EditObject(w, p.Res, p.NS, p.Name, "user", func(o Object) { setPath(o, m, f, "decorate", "statusMode") })
			}},
			EnvOp{"t-recolor " + p.Name, func(w *World) {
				b.take()
				EditObject(w, p.Res, p.NS, p.Name, "user", func(o Object) { setPath(o, fmt.Sprintf("c%d", w.step), f, "color") })
			}},
			EnvOp{"t-rescale " + p.Name, func(w *World) {
				b.take()
				n := w.T.Pick(3, "treplicas2")
				EditObject(w, p.Res, p.NS, p.Name, "user", func(o Object) { setPath(o, int64(n), f, "replicas") })
			}},
			EnvOp{"t-select " + p.Name, func(w *World) {
				b.take()
				on := w.T.Pick(2, "selecton") == 1
				EditObject(w, p.Res, p.NS, p.Name, "user", func(o Object) {
					if on {
						setPath(o, "yes", "metadata", "labels", "decorate")
						setPath(o, "yes", "metadata", "annotations", "decorate")
						delete(getMap(o, "metadata", "annotations"), "skip")
					} else {
						delete(getMap(o, "metadata", "labels"), "decorate")
						delete(getMap(o, "metadata", "annotations"), "decorate")
					}
				})
			}},
			EnvOp{"t-userstatus " + p.Name, func(w *World) {
				b.take()
				EditStatus(w, p.Res, p.NS, p.Name, "other-controller", func(o Object) { setPath(o, fmt.Sprint(w.step), "status", "foreign") })
			}},
			EnvOp{"t-delete " + p.Name, func(w *World) {
				b.take()
				w.Store.Delete(p.Res, p.NS, p.Name, DeleteOpts{Propagation: []string{"Background", "Foreground", "Orphan"}[w.T.Pick(3, "tprop")]}, "user")
			}},
			EnvOp{"t-replace " + p.Name, func(w *World) {
				// deleted (dependents orphaned or not yet collected) and re-created under the same name
				b.take()
				old := p.Get(w)
				if old == nil {
					return
				}
				EditObject(w, p.Res, p.NS, p.Name, "user", func(o Object) { delete(meta(o), "finalizers") })
				w.Store.Delete(p.Res, p.NS, p.Name, DeleteOpts{}, "user")
				if p.Get(w) != nil {
					return
				}
				n := Object{"apiVersion": old["apiVersion"], "kind": old["kind"],
					"metadata": Object{"name": p.Name, "namespace": p.NS, "labels": metaRO(old)["labels"], "annotations": metaRO(old)["annotations"]}, f: old[f]}
				w.Store.Create(p.Res, p.NS, n, "user")
			}},
			EnvOp{"t-unfinalize " + p.Name, func(w *World) {
				b.take()
				EditObject(w, p.Res, p.NS, p.Name, "user", func(o Object) { removeFinalizer(o, "example.com/foreign") })
			}},
		)
	}
	return ops
}

// AttachmentChaos offers other writers' operations on objects of the attachment kinds.
func (ds *DSetup) AttachmentChaos(b *EnvBudget) []EnvOp {
	if b.Left <= 0 {
		return nil
	}
	w := ds.W
	var ops []EnvOp
	seen := map[*Resource]bool{}
	for _, c := range ds.Cfgs {
		for _, a := range c.Attachments {
			if seen[a.Res] {
				continue
			}
			seen[a.Res] = true
			res := a.Res
			for _, o := range w.Store.List(res, "") {
				ns, name := mstr(o, "namespace"), mstr(o, "name")
				id := res.Kind + "/" + ns + "/" + name
				ops = append(ops,
					EnvOp{"a-delete " + id, func(w *World) { b.take(); w.Store.Delete(res, ns, name, DeleteOpts{}, "user") }},
					EnvOp{"a-drift " + id, func(w *World) {
						b.take()
						EditObject(w, res, ns, name, "user", func(o Object) { setPath(o, "drift", childContentField(res), "color") })
					}},
					EnvOp{"a-replaced-by-someone-else " + id, func(w *World) {
						// gone, and an object of the same name made by another decorator for the same
						// target in its place (another UID, another marker)
						b.take()
						cur := w.Store.Get(res, ns, name)
						if cur == nil || len(ownerRefsOf(cur)) == 0 {
							return
						}
						EditObject(w, res, ns, name, "user", func(o Object) { delete(meta(o), "finalizers") })
						w.Store.Delete(res, ns, name, DeleteOpts{}, "user")
						if w.Store.Get(res, ns, name) != nil {
							return
						}
						md := Object{"name": name, "ownerReferences": metaRO(cur)["ownerReferences"],
							"annotations": Object{"metacontroller.k8s.io/decorator-controller": "someone-else"}}
						if l := metaRO(cur)["labels"]; l != nil {
							md["labels"] = l
						}
						w.Store.Create(res, ns, Object{"metadata": md, childContentField(res): Object{"color": "foreign"}}, "user")
					}},
					EnvOp{"a-unmark " + id, func(w *World) {
						b.take()
						EditObject(w, res, ns, name, "user", func(o Object) {
							delete(getMap(o, "metadata", "annotations"), "metacontroller.k8s.io/decorator-controller")
						})
					}},
				)
			}
			// attachments made by someone else for the same target: no marker / another marker
			for _, p := range ds.Targets {
				p := p
				po := p.Get(w)
				if po == nil {
					continue
				}
				ops = append(ops, EnvOp{"a-foreign-attachment " + p.Name + " " + res.Kind, func(w *World) {
					b.take()
					po := p.Get(w)
					if po == nil {
						return
					}
					ns := p.NS
					md := Object{"name": fmt.Sprintf("%s-foreign-%d", p.Name, w.step), "ownerReferences": []interface{}{ownerRefObj(po, true)}}
					if w.T.Pick(2, "othermarker") == 1 {
						md["annotations"] = Object{"metacontroller.k8s.io/decorator-controller": "someone-else"}
					}
					w.Store.Create(res, ns, Object{"metadata": md, childContentField(res): Object{"color": "foreign"}}, "user")
				}})
			}
		}
	}
	return ops
}
