package sim

// DecoratorCfg describes one DecoratorController object.
type DecoratorCfg struct {
	Name          string
	ResyncSeconds int
}
