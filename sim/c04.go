package sim

import (
	"fmt"
	"sort"
	"strconv"
)

// parentSelector returns the selector the controller uses for children of parent
// (extra = true adds the labels ControllerRevisions are matched on).
func parentSelector(cfg *CompositeCfg, parent Object, revisions bool) (Object, bool) {
	sel := Object{}
	if cfg.GenerateSelector {
		sel["matchLabels"] = Object{"controller-uid": mstr(parent, "uid")}
	} else {
		ps := getMap(parent, "spec", "selector")
		if len(getMap(ps, "matchLabels")) == 0 && len(getList(ps, "matchExpressions")) == 0 {
			return nil, false
		}
		sel = deepCopy(ps)
	}
	if revisions {
		ml := getMap(sel, "matchLabels")
		if ml == nil {
			ml = Object{}
			sel["matchLabels"] = ml
		}
		ml["metacontroller.k8s.io/apiGroup"] = cfg.Parent.Group
		ml["metacontroller.k8s.io/resource"] = cfg.Parent.Plural
	}
	return sel, true
}

func labelsOfRaw(raw []byte) map[string]string {
	if raw == nil {
		return nil
	}
	return labelsOf(mustParse(raw))
}

func refsWithout(o Object, uid string) string {
	var keep []interface{}
	for _, r := range getList(o, "metadata", "ownerReferences") {
		if getStr(r, "uid") != uid {
			keep = append(keep, r)
		}
	}
	return jsonString(keep)
}

// c04Oracle checks adoption, release and creation against the ControllerRef rules.
func c04Oracle(w *World, s *Setup) *Violation {
	syncs := w.Syncs("parent")
	hosted := hostedParentUIDs(w, s.Cfg.Parent)
	report := func(v *Violation) *Violation {
		if w.Known(v) {
			return nil
		}
		return v
	}
	for _, r := range w.Reqs {
		if !r.IsWrite() || r.Res == nil || !(s.Cfg.Rule(r.Res) != nil || r.Res == ResRevision) || !accepted(r) {
			continue
		}
		target := fmt.Sprintf("%s %s/%s", r.Res.Kind, r.NS, r.Name)
		sy := syncOf(syncs, r.Inc, r.Root, r.Sync)
		if r.Pre == nil {
			// creation: with selector generation the child carries the parent-UID label
			if r.Post != nil && s.Cfg.GenerateSelector && r.Res != ResRevision {
				post := mustParse(r.Post)
				if c := controllerOf(post); c != nil && labelsOf(post)["controller-uid"] != c.UID {
					if v := report(&Violation{Prop: "C04", Class: "created-without-generated-label", Sig: s.Sig, Step: r.Step,
						Detail: fmt.Sprintf("%s created with labels %v, controller uid %s", target, labelsOf(post), c.UID)}); v != nil {
						return v
					}
				}
			}
			continue
		}
		if r.Verb != "update" || r.Post == nil {
			continue
		}
		pre, post := mustParse(r.Pre), mustParse(r.Post)
		preC, postC := controllerOf(pre), controllerOf(post)
		// owner references that belong to others never disappear through our writes
		ours := ""
		if sy != nil && sy.Parent != nil {
			ours = mstr(sy.Parent, "uid")
		} else if postC != nil && hosted[postC.UID] {
			ours = postC.UID
		} else if preC != nil && hosted[preC.UID] {
			ours = preC.UID
		}
		if refsWithout(pre, ours) != refsWithout(post, ours) {
			if v := report(&Violation{Prop: "C04", Class: "foreign-owner-reference-changed", Sig: s.Sig, Step: r.Step,
				Detail: fmt.Sprintf("%s: owner references of others changed from %s to %s", target, refsWithout(pre, ours), refsWithout(post, ours))}); v != nil {
				return v
			}
		}
		isAdoption := preC == nil && postC != nil && hosted[postC.UID]
		isRelease := preC != nil && hosted[preC.UID] && (postC == nil || postC.UID != preC.UID)
		if !isAdoption && !isRelease {
			continue
		}
		if !sameExceptOwnership(pre, post) {
			if v := report(&Violation{Prop: "C04", Class: "ownership-edit-changes-more", Sig: s.Sig, Step: r.Step,
				Detail: fmt.Sprintf("%s: the adoption/release edit changed more than the owner references", target)}); v != nil {
				return v
			}
		}
		if sy == nil {
			continue // cannot attribute (should not happen: ownership edits are made inside syncs)
		}
		uid := ""
		if isAdoption {
			uid = postC.UID
		} else {
			uid = preC.UID
		}
		// the parent as the sync saw it: any cached version during the sync
		var parentRef *ParentRef
		for i := range s.Parents {
			if po := w.Store.VersionsOfUID(s.Parents[i].Res, s.Parents[i].NS, s.Parents[i].Name, uid); po {
				parentRef = &s.Parents[i]
			}
		}
		if parentRef == nil {
			continue
		}
		parentViews := w.Cache.Versions(r.Inc, parentRef.Res, parentRef.NS, parentRef.Name, sy.StartStep-1, r.ParkStep)
		childViews := w.Cache.Versions(r.Inc, r.Res, r.NS, r.Name, sy.StartStep-1, r.ParkStep)
		// ... or a version an earlier answer of this sync carried (the finalizer update -
		// or, when there is nothing to update, its fresh read - returns the live parent,
		// and the sync goes on with that object)
		for _, q := range sy.Reqs {
			if q.Arrival < r.Arrival && q.Res == parentRef.Res && q.NS == parentRef.NS && q.Name == parentRef.Name && q.Sub == "" &&
				(q.Verb == "update" || q.Verb == "get") && q.Code == 200 && q.Fault == "" && q.Post != nil {
				parentViews = append(parentViews, q.Post)
			}
		}
		matchSome, unmatchSome, aliveChild := false, false, false
		parentAliveView := false
		for _, pv := range parentViews {
			if pv == nil {
				continue
			}
			po := mustParse(pv)
			if mstr(po, "uid") != uid {
				continue
			}
			if metaRO(po)["deletionTimestamp"] == nil {
				parentAliveView = true
			}
			sel, ok := parentSelector(s.Cfg, po, r.Res == ResRevision)
			if !ok {
				continue
			}
			for _, cv := range childViews {
				if cv == nil {
					continue
				}
				co := mustParse(cv)
				if mstr(co, "uid") != mstr(pre, "uid") {
					continue // an earlier object of the same name: not the one that was written
				}
				if selectorMatches(sel, labelsOf(co)) {
					matchSome = true
					if metaRO(co)["deletionTimestamp"] == nil {
						aliveChild = true
					}
				} else {
					unmatchSome = true
				}
			}
		}
		if isAdoption {
			if !matchSome {
				if v := report(&Violation{Prop: "C04", Class: "adopted-non-matching-orphan", Sig: s.Sig, Step: r.Step,
					Detail: fmt.Sprintf("%s adopted by %s although no version of it the sync could have read matches the parent's selector (labels %v)", target, uid, labelsOf(pre))}); v != nil {
					return v
				}
			} else if !aliveChild {
				if v := report(&Violation{Prop: "C04", Class: "adopted-deleting-orphan", Sig: s.Sig, Step: r.Step,
					Detail: fmt.Sprintf("%s adopted although every matching version the sync could have read was being deleted", target)}); v != nil {
					return v
				}
			}
			if !parentAliveView {
				if v := report(&Violation{Prop: "C04", Class: "deleting-parent-adopted", Sig: s.Sig, Step: r.Step,
					Detail: fmt.Sprintf("%s adopted by parent %s which was being deleted in every version the sync could have read", target, uid)}); v != nil {
					return v
				}
			}
			// the fresh, uncached read of the parent in the same sync
			fresh := false
			for _, q := range sy.Reqs {
				if q.Arrival < r.Arrival && q.Verb == "get" && q.Res == parentRef.Res && q.Name == parentRef.Name && q.NS == parentRef.NS && q.Code == 200 && q.Post != nil {
					fo := mustParse(q.Post)
					if mstr(fo, "uid") == uid && metaRO(fo)["deletionTimestamp"] == nil {
						fresh = true
					}
				}
			}
			if !fresh {
				if v := report(&Violation{Prop: "C04", Class: "adoption-without-live-parent-check", Sig: s.Sig, Step: r.Step,
					Detail: fmt.Sprintf("%s adopted by %s but the sync never received a live GET of the parent showing the same UID and no deletion timestamp", target, uid)}); v != nil {
					return v
				}
			}
			// body = pre-state + exactly our controller reference
			n := 0
			for _, ref := range ownerRefsOf(post) {
				if ref.UID == uid {
					n++
					if !ref.Controller {
						n = 99
					}
				}
			}
			if n != 1 {
				if v := report(&Violation{Prop: "C04", Class: "bad-adoption-reference", Sig: s.Sig, Step: r.Step,
					Detail: fmt.Sprintf("%s: owner references after adoption %s", target, jsonString(metaRO(post)["ownerReferences"]))}); v != nil {
					return v
				}
			}
		}
		if isRelease {
			if !unmatchSome {
				if v := report(&Violation{Prop: "C04", Class: "released-matching-child", Sig: s.Sig, Step: r.Step,
					Detail: fmt.Sprintf("%s released by %s although every version the sync could have read matches the selector", target, uid)}); v != nil {
					return v
				}
			}
			if !parentAliveView {
				if v := report(&Violation{Prop: "C04", Class: "deleting-parent-released", Sig: s.Sig, Step: r.Step,
					Detail: fmt.Sprintf("%s released by parent %s which was being deleted in every version the sync could have read", target, uid)}); v != nil {
					return v
				}
			}
		}
	}
	// rejected responses: a desired child that does not satisfy the selector => no writes in that sync
	for _, sy := range syncs {
		if sy.Parent == nil {
			continue
		}
		bad := false
		badWhy := ""
		var hookArrival int
		// With several live revisions the hook is asked once per revision, and what
		// metacontroller goes on with is a mix: every child the latest revision lists, in
		// the version of the revision the child is still assigned to; children that only
		// an older revision lists are dropped. All of them are held against the selector
		// of the latest parent. So an answer counts as rejected if the latest parent's
		// selector is unusable, or if some child the latest answer lists fails it in every
		// answer of this sync that lists it.
		var hooks []*HookRec
		for _, h := range sy.Hooks {
			if h.Code == 200 && (h.Kind == "sync" || h.Kind == "finalize") {
				hooks = append(hooks, h)
			}
		}
		if len(hooks) == 0 {
			continue
		}
		latest := hooks[0]
		if len(hooks) > 1 {
			// the latest parent is the one sent as the server issued it
			latest = nil
			for _, h := range hooks {
				po := getMap(h.Req, "parent")
				rv, _ := strconv.ParseInt(mstr(po, "resourceVersion"), 10, 64)
				if raw := w.Store.VersionAt(s.Cfg.Parent, mstr(po, "namespace"), mstr(po, "name"), rv); raw != nil && jsonString(mustParse(raw)["spec"]) == jsonString(po["spec"]) {
					latest = h
				}
			}
			if latest == nil {
				w.Probe("c04:latest-revision-call-not-identified")
				continue
			}
		}
		po := getMap(latest.Req, "parent")
		sel, ok := parentSelector(s.Cfg, po, false)
		type answer struct {
			h       *HookRec
			desired map[childID]Object
		}
		var answers []answer
		for _, h := range hooks {
			if h.Arrival > hookArrival {
				hookArrival = h.Arrival
			}
			desired, _, err := desiredFromResponse(w, h.RespBody, "children", mstr(po, "namespace"))
			if err != nil {
				continue
			}
			answers = append(answers, answer{h, desired})
		}
		var latestDesired map[childID]Object
		for _, a := range answers {
			if a.h == latest {
				latestDesired = a.desired
			}
		}
		if latestDesired == nil {
			continue // the latest answer itself is malformed: C13's subject
		}
		// (after taking its finalizer off, the sync goes on with the live parent the
		// server returned; if somebody changed the selector meanwhile, that one counts)
		reselected := false
		for _, q := range sy.Reqs {
			if q.Res == s.Cfg.Parent && q.Verb == "update" && q.Sub == "" && q.Post != nil && q.Code == 200 {
				if jsonString(getPath(mustParse(q.Post), "spec", "selector")) != jsonString(getPath(po, "spec", "selector")) {
					reselected = true
				}
			}
		}
		if reselected {
			w.Probe("c04:selector-changed-under-the-sync")
			continue
		}
		if !ok {
			bad = true
			badWhy = fmt.Sprintf("the selector of the parent sent at step %d is invalid: %s", latest.ParkStep, jsonString(getPath(po, "spec", "selector")))
		}
		ids := make([]childID, 0, len(latestDesired))
		for id := range latestDesired {
			ids = append(ids, id)
		}
		sort.Slice(ids, func(i, j int) bool { return ids[i].String() < ids[j].String() })
		for _, id := range ids {
			if !ok {
				break
			}
			everyVersionFails := true
			var labelsSeen []string
			for _, a := range answers {
				d, listed := a.desired[id]
				if !listed {
					continue
				}
				l := labelsOf(d)
				if s.Cfg.GenerateSelector {
					if _, has := l["controller-uid"]; !has {
						l["controller-uid"] = mstr(po, "uid")
					}
				}
				labelsSeen = append(labelsSeen, fmt.Sprint(l))
				if selectorMatches(sel, l) {
					everyVersionFails = false
				}
			}
			if everyVersionFails {
				bad = true
				badWhy = fmt.Sprintf("hook call(s) parked at step %d: child %s has labels %v in every answer that lists it, the selector of the latest parent is %s", latest.ParkStep, id.name, labelsSeen, jsonString(sel))
			} else if len(answers) > 1 {
				w.Probe("c04:child-label-check-over-several-revisions")
			}
		}
		if !bad {
			continue
		}
		w.Probe("c04:answer-that-must-be-rejected")
		for _, q := range sy.Reqs {
			if q.Arrival > hookArrival && q.IsWrite() && q.Res != nil && s.Cfg.Rule(q.Res) != nil && q.Fault != "cancelled" && q.Fault != "crashed" {
				if v := report(&Violation{Prop: "C04", Class: "write-despite-selector-mismatch", Sig: s.Sig, Step: q.Step,
					Detail: fmt.Sprintf("%s sent in a sync whose hook response contains a child that does not satisfy the parent's selector (%s)", q.Short(), badWhy)}); v != nil {
					return v
				}
			}
		}
		if sy.EndStep != 0 && len(sy.Errs) == 0 {
			if v := report(&Violation{Prop: "C04", Class: "selector-mismatch-not-reported", Sig: s.Sig, Step: sy.EndStep,
				Detail: "a hook response with a child that does not satisfy the parent's selector was accepted without an error (" + badWhy + ")"}); v != nil {
				return v
			}
		}
	}
	return nil
}

// VersionsOfUID reports whether an object ns/name of res ever had the given uid.
func (s *Store) VersionsOfUID(res *Resource, ns, name, uid string) bool {
	for i := range s.History {
		ev := &s.History[i]
		if ev.Res == res && ev.NS == ns && ev.Name == name && ev.Type == "ADDED" {
			if mstr(mustParse(ev.Raw), "uid") == uid {
				return true
			}
		}
	}
	return false
}

// twoControllers is the store invariant "no object has two controller references".
func twoControllers(w *World) *Violation {
	for _, k := range w.Store.AllKeys() {
		n := 0
		for _, r := range ownerRefsOf(w.Store.objs[k].obj) {
			if r.Controller {
				n++
			}
		}
		if n > 1 {
			return &Violation{Prop: "C04", Class: "two-controller-references", Detail: k.String()}
		}
	}
	return nil
}

// C04Scenario: adoption, release and creation obey the ControllerRef rules.
func C04Scenario() *Scenario {
	return &Scenario{Prop: "C04", Init: func(w *World) {
		t := w.T
		s := NewCompositeSetup(w, GenOpts{PlainOwner: true, SameNames: true, AllowCluster: true, MaxWorkers: 3, MaxParents: 2, LookAlikes: true, AvoidKnown: true, ExpressionSel: true, Finalize: 0})
		variant := t.Pick(6, "variant")
		switch variant {
		case 4:
			s.TP.BadLabel = true
			w.Cfg["variant"] = "bad-label"
		case 3:
			// the hook starts answering with non-matching labels only later, for
			// children that exist and are claimed by then
			w.Cfg["variant"] = "bad-label-later"
		case 5:
			// a parent whose selector is empty
			p := s.Parents[0]
			EditObject(w, p.Res, p.NS, p.Name, "user", func(o Object) { setPath(o, Object{}, "spec", "selector") })
			w.Cfg["variant"] = "empty-selector"
		}
		if len(s.Parents) > 1 && t.Pick(2, "overlap") == 1 && s.Parents[0].NS == s.Parents[1].NS {
			p0, p1 := s.Parents[0], s.Parents[1]
			EditObject(w, p1.Res, p1.NS, p1.Name, "user", func(o Object) {
				setPath(o, Object{"matchLabels": Object{"app": p0.Name}}, "spec", "selector")
			})
			w.Cfg["overlap"] = "true"
		}
		b := &EnvBudget{Left: 4 + t.Pick(8, "envbudget")}
		w.EnvOps = func(w *World) []EnvOp {
			var ops []EnvOp
			ops = append(ops, s.ChildChaos(b)...)
			ops = append(ops, s.OrphanOps(b)...)
			ops = append(ops, s.OrphanOps(b)...)
			ops = append(ops, s.ParentLifecycle(b)...)
			ops = append(ops, s.Reselect(b)...)
			ops = append(ops, s.ParentReplace(b)...)
			ops = append(ops, GCOps(w)...)
			if variant == 3 && !s.TP.BadLabel && w.step > 60 {
				ops = append(ops, EnvOp{"hook-turns-to-bad-labels", func(w *World) {
					s.TP.BadLabel = true
					for _, p := range s.Parents {
						EditObject(w, p.Res, p.NS, p.Name, "user", func(o Object) { setPath(o, "1", "metadata", "annotations", "poke") })
					}
				}})
			}
			return ops
		}
		pol := &Policy{Name: "adversarial", Shuffle: true, HoldWatch: 150 * t.Pick(5, "hold"), EnvProb: 120, AdvanceProb: 20}
		pol.ForceFault = s.ReplaceUnderWrite(40)
		// the live read of the parent that precedes an adoption fails now and then
		// (overload, time-out): then there is no live confirmation, and no adoption
		getFaults := []int{0, 0, 150, 400}[t.Pick(4, "getfaults")]
		if getFaults > 0 {
			pol.APIFault = getFaults
			pol.APIFaults = []string{"503", "504", "500", "neterr"}
			pol.FaultFilter = func(r *ReqRec) bool { return r.Verb == "get" && r.Res == s.Cfg.Parent && r.Sync >= 0 }
		}
		w.Cfg["policy"] = fmt.Sprintf("adversarial hold=%d parentGetFaults=%d", pol.HoldWatch, getFaults)
		w.Invariants = append(w.Invariants, twoControllers)
		w.Stages = []Stage{
			{Name: "chaos", Policy: pol, Steps: 200 + 100*t.Pick(3, "len")},
			{Name: "drain", Quiet: true, CheckOnBudget: true, MaxSteps: 3000, Do: func(w *World) { b.Left = 0 }, Check: func(w *World) *Violation { return c04Oracle(w, s) }},
		}
	}}
}

// ParentReplace offers delete-and-recreate of a parent under the same name (new UID).
func (s *Setup) ParentReplace(b *EnvBudget) []EnvOp {
	if b.Left <= 0 {
		return nil
	}
	var ops []EnvOp
	for _, p := range s.Parents {
		p := p
		ops = append(ops, EnvOp{"replace-parent " + p.Name, func(w *World) {
			b.take()
			old := p.Get(w)
			if old == nil {
				return
			}
			EditObject(w, p.Res, p.NS, p.Name, "user", func(o Object) { delete(meta(o), "finalizers") })
			w.Store.Delete(p.Res, p.NS, p.Name, DeleteOpts{}, "user")
			if p.Get(w) != nil {
				return
			}
			n := Object{"apiVersion": old["apiVersion"], "kind": old["kind"], "metadata": Object{"name": p.Name}, "spec": old["spec"]}
			if p.NS != "" {
				meta(n)["namespace"] = p.NS
			}
			w.Store.Create(p.Res, p.NS, n, "user")
		}})
	}
	return ops
}
