package sim

import (
	"fmt"
	"sort"
	"strings"
	"time"
)

// c20Ctl is the reference model of one hosted controller object.
type c20Ctl struct {
	kind      string // composite | decorator
	name      string
	exists    bool
	startable bool
	ver       int // hook URL version of the current spec
	parentRes *Resource
	childRes  []*Resource
	spec      Object
	why       string
	customize bool // the current spec has a customize hook (related Secrets)
	longHook  bool // the current spec gives its sync hook 30 s (a held call then outlasts 10 s)
}

// C20Scenario: hosted controllers follow their CompositeController / DecoratorController objects.
func C20Scenario() *Scenario {
	return &Scenario{Prop: "C20", Init: func(w *World) {
		t := w.T
		InstallUniverse(w)
		// parents and children already in the cluster
		for i := 0; i < 2; i++ {
			mustCreate(w.Store, ResThing, "ns1", NewThing(ResThing, "ns1", fmt.Sprintf("p%d", i), 1, "c0"), "user")
			mustCreate(w.Store, ResTarget, "ns1", NewTarget(ResTarget, "ns1", fmt.Sprintf("t%d", i), 1, map[string]string{"decorate": "yes"}, map[string]string{"decorate": "yes"}), "user")
		}
		mustCreate(w.Store, ResBareTarget, "ns1", NewThing(ResBareTarget, "ns1", "b0", 1, "c0"), "user")
		populateRelated(w)
		w.InlineUnsyncedHooks = true
		opts := &BootOptions{}
		opts.Proc.Workers = 1 + t.Pick(2, "workers")
		// in a quarter of the runs discovery is refreshed every 2 s and spec changes may
		// arrive while the document of the children's group-version is unavailable
		discoveryRuns := t.Pick(4, "discovery") == 3
		if discoveryRuns {
			opts.Proc.Discovery = 2 * time.Second
			w.Cfg["discoveryOutages"] = "true"
		}
		replacedAt := map[string][2]int{} // controller -> (old version, arrival at which the Reconcile that replaced it returned)
		// (Seeded yield points - DESIGN 2.7 - are not used here: with a whole
		// metacontroller process in the bubble, runs with yields stopped being repeatable,
		// see DESIGN 13.)
		StandardBoot(w, opts)
		progs := Programs{}
		w.HookProgram = progs.Answer
		ctls := map[string]*c20Ctl{}
		names := []string{"a", "b"}[:1+t.Pick(2, "names")]
		nextVer := 0
		sig := map[string]string{"component": "metacontroller-reconcilers"}
		// build a spec (valid or invalid) for controller c
		mkSpec := func(c *c20Ctl) {
			nextVer++
			c.ver = nextVer
			c.startable, c.why = true, "valid"
			variant := t.Pick(10, "specvariant")
			if c.kind == "composite" {
				cfg := &CompositeCfg{Name: c.name, Parent: ResThing, Ver: c.ver, Children: []ChildRule{{Res: ResWidget, Method: "InPlace"}}}
				if t.Pick(3, "second-child") == 2 {
					cfg.Children = append(cfg.Children, ChildRule{Res: ResConfigMap, Method: "Recreate"})
				}
				cfg.Finalize = t.Pick(3, "fin") == 2
				if t.Pick(3, "resync") == 2 {
					cfg.ResyncSeconds = 10
				}
				cfg.Etag = variant == 8
				cfg.Customize = t.Pick(3, "customize") == 2
				c.customize = cfg.Customize
				o := cfg.Object()
				c.longHook = t.Pick(3, "long-hook-timeout") == 2
				if c.longHook {
					setPath(o, "30s", "spec", "hooks", "sync", "webhook", "timeout")
				}
				c.parentRes, c.childRes = ResThing, nil
				for _, ch := range cfg.Children {
					c.childRes = append(c.childRes, ch.Res)
				}
				switch variant {
				case 0:
					setPath(o, "nosuchthings", "spec", "parentResource", "resource")
					c.startable, c.why = false, "unknown parent resource"
				case 1:
					delete(getMap(o, "spec"), "hooks")
					c.startable, c.why = false, "no hooks"
				case 2:
					setPath(o, Object{"webhook": Object{"timeout": "5s"}}, "spec", "hooks", "sync")
					c.startable, c.why = false, "webhook with neither url nor service+path"
				case 3:
					setPath(o, []interface{}{Object{"apiVersion": "kids.example.com/v1", "resource": "nosuchkids"}}, "spec", "childResources")
					c.startable, c.why = false, "unknown child resource"
				case 4:
					setPath(o, "baretargets", "spec", "parentResource", "resource")
					c.startable, c.why = false, "parent CRD without status subresource"
				case 5:
					// etag block with only the timeout set
					setPath(o, Object{"url": hookURL(c.name, "sync", c.ver), "etag": Object{"enabled": true, "cacheTimeoutSeconds": int64(60)}}, "spec", "hooks", "sync", "webhook")
					c.why = "etag with cacheTimeoutSeconds only"
				case 6:
					setPath(o, Object{"url": hookURL(c.name, "sync", c.ver), "etag": Object{"enabled": true}}, "spec", "hooks", "sync", "webhook")
					c.why = "etag enabled without timeouts"
				case 7:
					setPath(o, Object{"service": Object{"name": "hooks", "namespace": "sim"}, "path": fmt.Sprintf("/%s/sync/v%d", c.name, c.ver)}, "spec", "hooks", "sync", "webhook")
					c.why = "service+path webhook"
				}
				c.spec = o
			} else {
				cfg := &DecoratorCfg{Name: c.name, Ver: c.ver, Resources: []DecoratorResourceRule{{Res: ResTarget, LabelSelector: Object{"matchLabels": Object{"decorate": "yes"}}}},
					Attachments: []ChildRule{{Res: ResConfigMap, Method: "InPlace"}}}
				cfg.Finalize = t.Pick(3, "fin") == 2
				o := cfg.Object()
				c.longHook = t.Pick(3, "long-hook-timeout") == 2
				if c.longHook {
					setPath(o, "30s", "spec", "hooks", "sync", "webhook", "timeout")
				}
				c.parentRes, c.childRes = ResTarget, []*Resource{ResConfigMap}
				switch variant {
				case 0:
					setPath(o, []interface{}{Object{"apiVersion": "ctl.example.com/v1", "resource": "nosuchtargets"}}, "spec", "resources")
					c.startable, c.why = false, "unknown resource"
				case 1:
					delete(getMap(o, "spec"), "hooks")
					c.startable, c.why = false, "no hooks"
				case 2:
					setPath(o, Object{"webhook": Object{}}, "spec", "hooks", "sync")
					c.startable, c.why = false, "webhook with neither url nor service+path"
				case 3:
					setPath(o, []interface{}{Object{"apiVersion": "v1", "resource": "nosuchattachments"}}, "spec", "attachments")
					c.startable, c.why = false, "unknown attachment resource"
				}
				c.spec = o
			}
			// the program of this controller answers for every version; instances are told apart by URL
			if c.kind == "composite" {
				tp := &TemplateProgram{ParentKey: "parent", ChildrenKey: "children", Kinds: c.childRes}
				// a third of the customize programs also name the controller's own parent
				// resource as related (parents that depend on their siblings): the customize
				// manager and the controller then both hold a subscription to that informer
				own := t.Pick(3, "related-own-parent-kind") == 2
				pres := c.parentRes
				progs[c.name] = &Program{Sync: tp.SyncResponse, Finalize: tp.FinalizeResponse, Customize: func(req Object) Object {
					rules := []interface{}{Object{"apiVersion": "v1", "resource": "secrets", "names": []interface{}{"r0"}}}
					if own {
						rules = append(rules, Object{"apiVersion": pres.APIVersion(), "resource": pres.Plural, "names": []interface{}{"sibling"}})
					}
					return Object{"relatedResources": rules}
				}}
			} else {
				dp := &DecorateProgram{Kinds: c.childRes, Tag: c.name}
				progs[c.name] = &Program{Sync: dp.Sync, Finalize: dp.Finalize}
			}
		}
		resOf := func(c *c20Ctl) *Resource {
			if c.kind == "composite" {
				return ResCompositeCtl
			}
			return ResDecoratorCtl
		}
		var opLog []string
		nOps := 3 + t.Pick(8, "nops")
		var stages []Stage
		stages = append(stages, Stage{Name: "boot", Quiet: true, MaxSteps: 2000})
		for i := 0; i < nOps; i++ {
			opStep, probeStep := 0, 0
			watchesBeforeNoop := -1
			noop := false
			var opName string
			stages = append(stages,
				Stage{Name: fmt.Sprintf("op%d", i), Quiet: true, MaxSteps: 3000, Do: func(w *World) {
					opStep = w.step
					noop = false
					name := names[t.Pick(len(names), "name")]
					c := ctls[name]
					if c == nil {
						c = &c20Ctl{name: name, kind: []string{"composite", "decorator"}[t.Pick(2, "kind")]}
						ctls[name] = c
					}
					ops := []string{"create-or-update", "create-or-update", "noop-update", "delete", "recreate-unchanged", "replace"}
					op := ops[t.Pick(len(ops), "op")]
					if t.Pick(5, "pause") == 4 && !discoveryRuns {
						// the process has been up for a while (longer than any 20-minute cache in it)
						for waited := time.Duration(0); waited < 25*time.Minute; waited += time.Minute {
							w.Sleep(time.Minute)
							for i := 0; i < 50 && !w.Idle(); i++ {
								w.StepOnce(FairPolicy)
							}
						}
						opStep = w.step
						w.Probe("c20:op-after-25-minutes")
					}
					switch {
					case op == "recreate-unchanged" && !c.exists && c.spec != nil:
						// the same controller object comes back unchanged (same hooks, same URLs)
						mustCreate(w.Store, resOf(c), "", c.spec, "config")
						c.exists = true
						opName = fmt.Sprintf("re-create %s/%s v%d unchanged (%s)", c.kind, c.name, c.ver, c.why)
						w.Probe("c20:recreated-unchanged")
					case op == "delete" && c.exists:
						w.Store.Delete(resOf(c), "", c.name, DeleteOpts{}, "config")
						c.exists = false
						opName = "delete " + c.kind + "/" + c.name
					case op == "replace" && c.exists:
						// deleted and created again with another spec before the reconciler gets to
						// look: one Reconcile, which finds an object of the known name whose
						// generation is 1 again
						w.Store.Delete(resOf(c), "", c.name, DeleteOpts{}, "config")
						mkSpec(c)
						mustCreate(w.Store, resOf(c), "", c.spec, "config")
						opName = fmt.Sprintf("replace %s/%s by v%d (%s) in one go", c.kind, c.name, c.ver, c.why)
						w.Probe("c20:replaced-between-two-reconciles")
					case op == "noop-update" && c.exists:
						EditObject(w, resOf(c), "", c.name, "config", func(o Object) { setPath(o, fmt.Sprint(w.step), "metadata", "annotations", "touched") })
						noop = true
						watchesBeforeNoop = len(w.Reqs)
						opName = "noop-update " + c.kind + "/" + c.name
					default:
						oldVer, wasRunning := c.ver, c.exists && c.startable
						oldLongHook := c.longHook
						var held *HookRec
						if wasRunning && t.Pick(3, "busy") == 2 {
							// the spec changes while a sync of the running instance is in flight: its
							// parents are poked and the webhook takes its time over one of the calls
							for _, o := range w.Store.List(c.parentRes, "") {
								// (one child of each goes missing first, so that the sync in flight has
								// something to write once its hook call is answered)
								for _, cr := range c.childRes {
									if kids := ControlledBy(w.Store, cr, mstr(o, "uid")); len(kids) > 0 {
										EditObject(w, cr, mstr(kids[0], "namespace"), mstr(kids[0], "name"), "user", func(k Object) { delete(meta(k), "finalizers") })
										w.Store.Delete(cr, mstr(kids[0], "namespace"), mstr(kids[0], "name"), DeleteOpts{}, "user")
										break
									}
								}
								EditObject(w, c.parentRes, mstr(o, "namespace"), mstr(o, "name"), "user", func(o Object) { setPath(o, fmt.Sprint(w.step), "metadata", "annotations", "busy") })
							}
							parkedOld := func() *HookRec {
								for _, h := range w.PendingHooks() {
									if h.Controller == c.name && h.Ver == fmt.Sprintf("v%d", oldVer) && (h.Kind == "sync" || h.Kind == "finalize") {
										return h
									}
								}
								return nil
							}
							holdAll := &Policy{Name: "hold-hooks", HoldHook: func(h *HookRec) bool { return true }}
							for i := 0; i < 40 && parkedOld() == nil; i++ {
								w.StepOnce(holdAll)
							}
							held = parkedOld()
						}
						outage := discoveryRuns && wasRunning && held == nil && t.Pick(2, "outage") == 1
						gvs := []string{"kids.example.com/v1", "kids.example.com/v1beta1"}
						if outage {
							// the discovery documents of the children's group-versions become unavailable,
							// and the resource map has dropped them by the time the spec changes
							w.DiscoveryDown = map[string]bool{}
							for _, gv := range gvs {
								w.DiscoveryDown[gv] = true
							}
							for i := 0; i < 6 && w.Proc.Resources.Get("kids.example.com/v1", "widgets") != nil; i++ {
								w.SleepHard(1100 * time.Millisecond)
								for j := 0; j < 40 && !w.Idle(); j++ {
									w.StepOnce(FairPolicy)
								}
							}
						}
						mkSpec(c)
						if c.exists && outage && c.startable {
							EditObject(w, resOf(c), "", c.name, "config", func(o Object) { o["spec"] = c.spec["spec"] })
							opName = fmt.Sprintf("update %s/%s to v%d (%s) while discovery of the children's groups is down", c.kind, c.name, c.ver, c.why)
							n := len(w.Proc.ReconcileLog)
							w.Proc.Reconcile(c.kind, c.name)
							for i := 0; i < 60 && len(w.Proc.ReconcileLog) == n; i++ {
								w.StepOnce(FairPolicy)
							}
							if len(w.Proc.ReconcileLog) > n {
								replacedAt[c.name] = [2]int{oldVer, w.Proc.ReconcileLog[n].Arrival}
								w.Probe("c20:spec-changed-during-discovery-outage")
							}
							// the parents are touched: whoever is (still) running will show itself
							for _, o := range w.Store.List(c.parentRes, "") {
								EditObject(w, c.parentRes, mstr(o, "namespace"), mstr(o, "name"), "user", func(o Object) { setPath(o, fmt.Sprint(w.step), "metadata", "annotations", "outage") })
							}
							for i := 0; i < 25; i++ {
								w.StepOnce(FairPolicy)
							}
							// discovery comes back; the reconciler's retry (or the next event) starts the new instance
							w.DiscoveryDown = nil
							for i := 0; i < 8 && w.Proc.Resources.Get("kids.example.com/v1", "widgets") == nil; i++ {
								w.SleepHard(1100 * time.Millisecond)
								for j := 0; j < 40 && !w.Idle(); j++ {
									w.StepOnce(FairPolicy)
								}
							}
							w.Proc.Reconcile(c.kind, c.name)
							opLog = append(opLog, fmt.Sprintf("%d %s", w.step, opName))
							w.logf("config %s", opName)
							return
						}
						if outage {
							w.DiscoveryDown = nil
						}
						if c.exists {
							EditObject(w, resOf(c), "", c.name, "config", func(o Object) { o["spec"] = c.spec["spec"] })
							opName = fmt.Sprintf("update %s/%s to v%d (%s)", c.kind, c.name, c.ver, c.why)
							if held != nil {
								// the call stays unanswered until the successor has shown itself (it cannot:
								// stopping the old instance waits for the sync in flight) or 30 steps passed
								opName += " while a sync is in flight"
								w.Probe("c20:spec-changed-while-a-sync-is-in-flight")
								w.Proc.Reconcile(c.kind, c.name)
								holdOne := &Policy{Name: "hold-one-hook", HoldHook: func(h *HookRec) bool { return h == held }}
								newVer := fmt.Sprintf("v%d", c.ver)
								for i := 0; i < 30; i++ {
									seen := false
									for _, h := range w.PendingHooks() {
										if h.Controller == c.name && h.Ver == newVer {
											seen = true
										}
									}
									if seen {
										break
									}
									if i == 4 && oldLongHook {
										// the webhook of the old version takes 12 s over the call it is
										// still holding (its time limit is 30 s): whoever stops the old
										// instance has to wait that long
										w.SleepHard(12 * time.Second)
										w.Probe("c20:held-sync-outlasts-ten-seconds")
									}
									w.StepOnce(holdOne)
								}
								opLog = append(opLog, fmt.Sprintf("%d %s", w.step, opName))
								w.logf("config %s", opName)
								return
							}
						} else {
							mustCreate(w.Store, resOf(c), "", c.spec, "config")
							c.exists = true
							opName = fmt.Sprintf("create %s/%s v%d (%s)", c.kind, c.name, c.ver, c.why)
						}
					}
					opLog = append(opLog, fmt.Sprintf("%d %s", w.step, opName))
					w.logf("config %s", opName)
					w.Proc.Reconcile(c.kind, c.name)
				}},
				Stage{Name: fmt.Sprintf("probe%d", i), Quiet: true, MaxSteps: 3000,
					Do: func(w *World) {
						probeStep = w.step
						for _, res := range []*Resource{ResThing, ResTarget} {
							for _, o := range w.Store.List(res, "") {
								EditObject(w, res, mstr(o, "namespace"), mstr(o, "name"), "user", func(o Object) { setPath(o, fmt.Sprint(w.step), "metadata", "annotations", "probe") })
							}
						}
						// ... and the related object of controllers with a customize hook
						EditObject(w, ResSecret, "ns1", "r0", "user", func(o Object) { setPath(o, fmt.Sprint(w.step), "data", "v") })
					},
					Check: func(w *World) *Violation {
						where := fmt.Sprintf("after %q (ops: %v)", opName, opLog)
						if len(w.Panics) > 0 {
							return &Violation{Prop: "C20", Class: "worker-panic", Sig: sig, Detail: w.Panics[0]}
						}
						// customize calls on behalf of instances that are gone
						for _, h := range w.Hooks {
							if h.ParkStep <= probeStep || h.Kind != "customize" {
								continue
							}
							v := 0
							fmt.Sscanf(h.Ver, "v%d", &v)
							c := ctls[h.Controller]
							if c == nil || !(c.exists && c.startable) || v != c.ver {
								s2 := copySig(sig)
								s2["hook"] = "customize"
								what := "no such controller"
								if c != nil {
									what = "the object now " + describeCtl(c)
									s2["reason"] = describeCtl(c)
								}
								return &Violation{Prop: "C20", Class: "stale-instance-still-syncing", Sig: s2,
									Detail: fmt.Sprintf("%s: the customize hook of %s v%d was called although %s", where, h.Controller, v, what)}
							}
						}
						// an instance is stopped completely before its successor starts: nothing is
						// sent on behalf of version v once a hook call of a later version of the same
						// controller has been made
						firstOf := map[string]map[int]int{} // controller -> version -> arrival of its first sync/finalize call
						for _, h := range w.Hooks {
							if h.Kind != "sync" && h.Kind != "finalize" {
								continue
							}
							v := 0
							fmt.Sscanf(h.Ver, "v%d", &v)
							if firstOf[h.Controller] == nil {
								firstOf[h.Controller] = map[int]int{}
							}
							if a, ok := firstOf[h.Controller][v]; !ok || h.Arrival < a {
								firstOf[h.Controller][v] = h.Arrival
							}
						}
						for _, qn := range []string{"parent", "object"} {
							for _, sy := range w.Syncs(qn) {
								var hk *HookRec
								for _, h := range sy.Hooks {
									if h.Kind == "sync" || h.Kind == "finalize" {
										hk = h
									}
								}
								if hk == nil {
									continue
								}
								v := 0
								fmt.Sscanf(hk.Ver, "v%d", &v)
								succ := 0
								for v2, a := range firstOf[hk.Controller] {
									if v2 > v && (succ == 0 || a < succ) {
										succ = a
									}
								}
								if succ == 0 {
									continue
								}
								for _, q := range sy.Reqs {
									if q.Arrival > succ && q.IsWrite() {
										s2 := copySig(sig)
										s2["overlap"] = "old-instance-writes-after-successor-started"
										return &Violation{Prop: "C20", Class: "stale-instance-still-syncing", Sig: s2,
											Detail: fmt.Sprintf("%s: %s was sent by a sync of %s v%d after a later version of that controller had made its first hook call", where, q.Short(), hk.Controller, v)}
									}
								}
							}
						}
						// ... and before its successor is built: once the Reconcile call that saw the
						// new spec has returned - with or without a running successor - the old
						// instance makes no more hook calls
						for _, h := range w.Hooks {
							if h.Kind != "sync" && h.Kind != "finalize" {
								continue
							}
							if ra, ok := replacedAt[h.Controller]; ok && h.Ver == fmt.Sprintf("v%d", ra[0]) && h.Arrival > ra[1] {
								s2 := copySig(sig)
								s2["overlap"] = "old-instance-active-after-the-reconcile-that-replaced-it"
								return &Violation{Prop: "C20", Class: "stale-instance-still-syncing", Sig: s2,
									Detail: fmt.Sprintf("%s: a %s call went to %s v%d after the Reconcile call that had seen the changed spec returned (the new instance could not be started at once: discovery outage)", where, h.Kind, h.Controller, ra[0])}
							}
						}
						// which instances answered the probe
						calls := map[string]map[int]int{} // controller -> ver -> hook calls during the probe
						for _, h := range w.Hooks {
							if h.ParkStep <= probeStep || (h.Kind != "sync" && h.Kind != "finalize") {
								continue
							}
							if calls[h.Controller] == nil {
								calls[h.Controller] = map[int]int{}
							}
							v := 0
							fmt.Sscanf(h.Ver, "v%d", &v)
							calls[h.Controller][v]++
						}
						for _, name := range sortedKeys(ctls) {
							c := ctls[name]
							running := c.exists && c.startable
							for v, n := range calls[name] {
								if !running || v != c.ver {
									s2 := copySig(sig)
									s2["reason"] = describeCtl(c)
									return &Violation{Prop: "C20", Class: "stale-instance-still-syncing", Sig: s2,
										Detail: fmt.Sprintf("%s: %d hook call(s) went to %s/%s v%d although the object now %s", where, n, c.kind, name, v, describeCtl(c))}
								}
							}
							if running && calls[name][c.ver] == 0 {
								return &Violation{Prop: "C20", Class: "controller-not-running", Sig: sig,
									Detail: fmt.Sprintf("%s: %s/%s v%d (%s) should be running but answered none of the probe edits", where, c.kind, name, c.ver, c.why)}
							}
							if running {
								// one instance only: no more sync bursts per probed parent than a single instance makes
								parents := len(w.Store.List(c.parentRes, ""))
								if calls[name][c.ver] > 6*parents+6 {
									return &Violation{Prop: "C20", Class: "duplicate-instances", Sig: sig,
										Detail: fmt.Sprintf("%s: %d hook calls for %d probed parents from %s/%s: handlers or instances accumulate", where, calls[name][c.ver], parents, c.kind, name)}
								}
							}
						}
						// API writes on behalf of controllers that are not running
						for _, r := range w.Reqs {
							if r.ParkStep <= probeStep || !r.IsWrite() || r.Sync < 0 {
								continue
							}
							owner := strings.TrimPrefix(strings.TrimPrefix(r.Queue, "CompositeController-"), "DecoratorController-")
							if c := ctls[owner]; c != nil && !(c.exists && c.startable) {
								return &Violation{Prop: "C20", Class: "write-after-stop", Sig: sig,
									Detail: fmt.Sprintf("%s: %s was sent by a worker of %s/%s although the object now %s", where, r.Short(), c.kind, owner, describeCtl(c))}
							}
						}
						// informer subscriptions: exactly the resources running controllers need
						need := map[*Resource]bool{ResRevision: true}
						for _, c := range ctls {
							if c.exists && c.startable {
								need[c.parentRes] = true
								for _, r := range c.childRes {
									need[r] = true
								}
								if c.customize && len(w.Store.List(c.parentRes, "")) > 0 {
									need[ResSecret] = true // subscribed to when the first parent is synced
								}
							}
						}
						live := map[*Resource]int{}
						for _, ws := range w.OpenStreams() {
							live[ws.Res]++
						}
						var keys []string
						for r := range live {
							keys = append(keys, r.Plural)
						}
						sort.Strings(keys)
						for r, n := range live {
							if !need[r] {
								return &Violation{Prop: "C20", Class: "watch-left-behind", Sig: sig,
									Detail: fmt.Sprintf("%s: a WATCH on %s is still open although no running controller needs it (live: %v)", where, r.Plural, keys)}
							}
							if n > 1 {
								return &Violation{Prop: "C20", Class: "duplicate-watch", Sig: sig, Detail: fmt.Sprintf("%s: %d WATCH streams on %s", where, n, r.Plural)}
							}
						}
						for r := range need {
							if live[r] == 0 {
								return &Violation{Prop: "C20", Class: "watch-missing", Sig: sig, Detail: fmt.Sprintf("%s: no WATCH on %s although a running controller needs it (live: %v)", where, r.Plural, keys)}
							}
						}
						// an update that leaves the spec unchanged does nothing: no LIST/WATCH
						// (judged only when no controller object is around that cannot start: the
						// reconciler keeps retrying those, and each attempt subscribes and lets go again)
						retrying := false
						for _, c := range ctls {
							if c.exists && !c.startable {
								retrying = true
							}
						}
						if noop && watchesBeforeNoop >= 0 && !retrying {
							for _, r := range w.Reqs[watchesBeforeNoop:] {
								if (r.Verb == "list" || r.Verb == "watch") && r.ParkStep > opStep && r.ParkStep <= probeStep {
									return &Violation{Prop: "C20", Class: "noop-update-restarted-informers", Sig: sig,
										Detail: fmt.Sprintf("%s: %s was sent after an update that left the spec unchanged", where, r.Short())}
								}
							}
						}
						w.Probe("c20:round-ok")
						return nil
					}})
		}
		w.PanicProp = "C20"
		w.PanicSig = func(w *World) map[string]string { return sig }
		w.Stages = stages
	}}
}

func describeCtl(c *c20Ctl) string {
	switch {
	case !c.exists:
		return "is deleted"
	case !c.startable:
		return "cannot start (" + c.why + ")"
	}
	return fmt.Sprintf("is at v%d", c.ver)
}
