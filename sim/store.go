package sim

import (
	"bytes"
	"encoding/json"
	"fmt"
	"sort"
	"strings"

	jsonpatch "github.com/evanphx/json-patch/v5"
	utiljson "k8s.io/apimachinery/pkg/util/json"
)

// This file is the model of kube-apiserver + etcd the simulator serves. Its
// rules are the ones listed in DESIGN.md §3; it is a stub and reported as one.

type Object = map[string]interface{}

// Resource describes one served API resource (one version per resource).
type Resource struct {
	Group, Version, Plural, Kind string
	Namespaced                   bool
	Status                       bool // has the /status subresource
	Generation                   bool // server maintains metadata.generation
	Scale                        bool // discovery also lists a /scale subresource
}

func (r *Resource) APIVersion() string {
	if r.Group == "" {
		return r.Version
	}
	return r.Group + "/" + r.Version
}

func (r *Resource) Key() string { return r.Group + "/" + r.Plural }

// KindKey is the `Kind.apiVersion` spelling used in hook requests.
func (r *Resource) KindKey() string { return r.Kind + "." + r.APIVersion() }

type objKey struct {
	res      string
	ns, name string
}

func (k objKey) String() string { return k.res + ":" + k.ns + "/" + k.name }

type stored struct {
	obj Object
	raw []byte
}

// Event is one entry of the store's history (what a WATCH would show).
type Event struct {
	RV    int64
	Type  string // ADDED MODIFIED DELETED
	Res   *Resource
	NS    string
	Name  string
	Raw   []byte // object after the event (for DELETED: last state, new RV)
	Actor string
	Step  int
}

// StatusErr is an API error answer.
type StatusErr struct {
	Code    int
	Reason  string
	Message string
	Retry   int // Retry-After seconds for 429/503
	// BodyRetryOnly: details.retryAfterSeconds in the Status body without a Retry-After
	// header - what the caller is left with once client-go's own retries of such an
	// answer are used up (it then returns this very error)
	BodyRetryOnly bool
}

func (e *StatusErr) Error() string { return fmt.Sprintf("%d %s: %s", e.Code, e.Reason, e.Message) }

func errNotFound(r *Resource, name string) *StatusErr {
	return &StatusErr{Code: 404, Reason: "NotFound", Message: fmt.Sprintf("%s %q not found", r.Plural, name)}
}
func errConflict(r *Resource, name, why string) *StatusErr {
	return &StatusErr{Code: 409, Reason: "Conflict", Message: fmt.Sprintf("Operation cannot be fulfilled on %s %q: %s", r.Plural, name, why)}
}
func errExists(r *Resource, name string) *StatusErr {
	return &StatusErr{Code: 409, Reason: "AlreadyExists", Message: fmt.Sprintf("%s %q already exists", r.Plural, name)}
}
func errInvalid(r *Resource, name, why string) *StatusErr {
	return &StatusErr{Code: 422, Reason: "Invalid", Message: fmt.Sprintf("%s %q is invalid: %s", r.Kind, name, why)}
}
func errBadRequest(why string) *StatusErr {
	return &StatusErr{Code: 400, Reason: "BadRequest", Message: why}
}
func errGone(why string) *StatusErr {
	return &StatusErr{Code: 410, Reason: "Expired", Message: why}
}
func errMethod(why string) *StatusErr {
	return &StatusErr{Code: 405, Reason: "MethodNotAllowed", Message: why}
}

// Store is the durable state of a run: it survives simulated crashes.
type Store struct {
	resList   []*Resource
	resources map[string]*Resource // key group/plural
	objs      map[objKey]*stored
	rv        int64
	History   []Event
	compactRV int64
	uidCount  map[string]int
	applied   map[objKey]map[string]Object    // SSA: last applied config per manager
	Defaulter func(res *Resource, obj Object) // optional admission defaulting on create
	Step      int                             // current kernel step (stamped on events)
	clock     int64                           // server clock, seconds; monotone
}

func NewStore() *Store {
	return &Store{
		resources: map[string]*Resource{},
		objs:      map[objKey]*stored{},
		uidCount:  map[string]int{},
		applied:   map[objKey]map[string]Object{},
		rv:        100,
		clock:     946684800 + 86400*365*25, // 2024-12-25T00:00:00Z-ish
	}
}

func (s *Store) AddResource(r *Resource) {
	s.resources[r.Key()] = r
	s.resList = append(s.resList, r)
}

func (s *Store) Resources() []*Resource { return s.resList }

func (s *Store) Resource(group, plural string) *Resource { return s.resources[group+"/"+plural] }

func (s *Store) ResourceByKind(group, kind string) *Resource {
	for _, r := range s.resList {
		if r.Group == group && r.Kind == kind {
			return r
		}
	}
	return nil
}

func (s *Store) RV() int64 { return s.rv }

func canon(o Object) []byte {
	b, err := json.Marshal(o)
	if err != nil {
		panic(fmt.Sprintf("sim: cannot marshal object: %v", err))
	}
	return b
}

func parse(b []byte) (Object, error) {
	var o Object
	if err := utiljson.Unmarshal(b, &o); err != nil {
		return nil, err
	}
	if o == nil {
		return nil, fmt.Errorf("not a JSON object")
	}
	return o, nil
}

func mustParse(b []byte) Object {
	o, err := parse(b)
	if err != nil {
		panic(err)
	}
	return o
}

func deepCopy(o Object) Object { return mustParse(canon(o)) }

func meta(o Object) Object {
	m, _ := o["metadata"].(map[string]interface{})
	if m == nil {
		m = Object{}
		o["metadata"] = m
	}
	return m
}

func metaRO(o Object) Object {
	m, _ := o["metadata"].(map[string]interface{})
	return m
}

func mstr(o Object, field string) string {
	v, _ := metaRO(o)[field].(string)
	return v
}

func strList(v interface{}) []string {
	l, _ := v.([]interface{})
	out := make([]string, 0, len(l))
	for _, x := range l {
		if s, ok := x.(string); ok {
			out = append(out, s)
		}
	}
	return out
}

func finalizersOf(o Object) []string { return strList(metaRO(o)["finalizers"]) }

func hasFinalizer(o Object, f string) bool {
	for _, x := range finalizersOf(o) {
		if x == f {
			return true
		}
	}
	return false
}

func labelsOf(o Object) map[string]string {
	out := map[string]string{}
	m, _ := metaRO(o)["labels"].(map[string]interface{})
	for k, v := range m {
		if s, ok := v.(string); ok {
			out[k] = s
		}
	}
	return out
}

func annotationsOf(o Object) map[string]string {
	out := map[string]string{}
	m, _ := metaRO(o)["annotations"].(map[string]interface{})
	for k, v := range m {
		if s, ok := v.(string); ok {
			out[k] = s
		}
	}
	return out
}

// OwnerRef is the parsed form of one metadata.ownerReferences entry.
type OwnerRef struct {
	APIVersion, Kind, Name, UID string
	Controller, Block           bool
}

func ownerRefsOf(o Object) []OwnerRef {
	l, _ := metaRO(o)["ownerReferences"].([]interface{})
	var out []OwnerRef
	for _, x := range l {
		m, ok := x.(map[string]interface{})
		if !ok {
			continue
		}
		r := OwnerRef{}
		r.APIVersion, _ = m["apiVersion"].(string)
		r.Kind, _ = m["kind"].(string)
		r.Name, _ = m["name"].(string)
		r.UID, _ = m["uid"].(string)
		r.Controller, _ = m["controller"].(bool)
		r.Block, _ = m["blockOwnerDeletion"].(bool)
		out = append(out, r)
	}
	return out
}

func controllerOf(o Object) *OwnerRef {
	for _, r := range ownerRefsOf(o) {
		if r.Controller {
			rr := r
			return &rr
		}
	}
	return nil
}

func (s *Store) now() string {
	// RFC3339, second resolution, derived from a counter: deterministic.
	t := s.clock
	s.clock++
	days := t / 86400
	rem := t % 86400
	// civil-from-days (Howard Hinnant)
	z := days + 719468
	era := z / 146097
	doe := z - era*146097
	yoe := (doe - doe/1460 + doe/36524 - doe/146096) / 365
	y := yoe + era*400
	doy := doe - (365*yoe + yoe/4 - yoe/100)
	mp := (5*doy + 2) / 153
	d := doy - (153*mp+2)/5 + 1
	m := mp + 3
	if m > 12 {
		m -= 12
	}
	if m <= 2 {
		y++
	}
	return fmt.Sprintf("%04d-%02d-%02dT%02d:%02d:%02dZ", y, m, d, rem/3600, (rem%3600)/60, rem%60)
}

func (s *Store) get(k objKey) *stored { return s.objs[k] }

// Get returns a copy of the stored object or nil.
func (s *Store) Get(r *Resource, ns, name string) Object {
	st := s.objs[objKey{r.Key(), ns, name}]
	if st == nil {
		return nil
	}
	return mustParse(st.raw)
}

// GetRaw returns the canonical bytes of the stored object or nil.
func (s *Store) GetRaw(r *Resource, ns, name string) []byte {
	st := s.objs[objKey{r.Key(), ns, name}]
	if st == nil {
		return nil
	}
	return st.raw
}

// List returns copies of all objects of r (in ns if ns != ""), sorted by key.
func (s *Store) List(r *Resource, ns string) []Object {
	var keys []objKey
	for k := range s.objs {
		if k.res == r.Key() && (ns == "" || k.ns == ns) {
			keys = append(keys, k)
		}
	}
	sort.Slice(keys, func(i, j int) bool {
		if keys[i].ns != keys[j].ns {
			return keys[i].ns < keys[j].ns
		}
		return keys[i].name < keys[j].name
	})
	out := make([]Object, 0, len(keys))
	for _, k := range keys {
		out = append(out, mustParse(s.objs[k].raw))
	}
	return out
}

// AllKeys returns every stored object key, sorted.
func (s *Store) AllKeys() []objKey {
	keys := make([]objKey, 0, len(s.objs))
	for k := range s.objs {
		keys = append(keys, k)
	}
	sort.Slice(keys, func(i, j int) bool { return keys[i].String() < keys[j].String() })
	return keys
}

func (s *Store) commit(r *Resource, k objKey, o Object, typ, actor string) Object {
	s.rv++
	meta(o)["resourceVersion"] = fmt.Sprint(s.rv)
	raw := canon(o)
	if typ == "DELETED" {
		delete(s.objs, k)
		delete(s.applied, k)
	} else {
		s.objs[k] = &stored{obj: o, raw: raw}
	}
	s.History = append(s.History, Event{RV: s.rv, Type: typ, Res: r, NS: k.ns, Name: k.name, Raw: raw, Actor: actor, Step: s.Step})
	return mustParse(raw)
}

// validateRevisionSchema: what the shipped CRD of ControllerRevision demands of
// children[] - apiGroup, kind and names are required, names is an array and not
// nullable (a null is pruned and the required check then fails).
func validateRevisionSchema(r *Resource, name string, o Object) *StatusErr {
	if r != ResRevision {
		return nil
	}
	for i, c := range getList(o, "children") {
		cm, ok := c.(map[string]interface{})
		if !ok {
			return errInvalid(r, name, fmt.Sprintf("children[%d]: Invalid value: must be an object", i))
		}
		if _, isList := cm["names"].([]interface{}); !isList {
			return errInvalid(r, name, fmt.Sprintf("children[%d].names: Required value", i))
		}
		for _, f := range []string{"apiGroup", "kind"} {
			if _, isStr := cm[f].(string); !isStr {
				return errInvalid(r, name, fmt.Sprintf("children[%d].%s: Required value", i, f))
			}
		}
	}
	return nil
}

func validateOwnerRefs(r *Resource, name string, o Object) *StatusErr {
	n := 0
	seen := map[string]bool{}
	for _, ref := range ownerRefsOf(o) {
		if ref.UID == "" {
			return errInvalid(r, name, "metadata.ownerReferences.uid: Invalid value: \"\": uid must not be empty")
		}
		if ref.Name == "" || ref.Kind == "" || ref.APIVersion == "" {
			return errInvalid(r, name, "metadata.ownerReferences: name, kind and apiVersion must not be empty")
		}
		if ref.Controller {
			n++
		}
		seen[ref.UID] = true
	}
	if n > 1 {
		return errInvalid(r, name, "metadata.ownerReferences: Invalid value: Only one reference can have Controller set to true")
	}
	return nil
}

func validateMetaTypes(r *Resource, name string, o Object) *StatusErr {
	m := metaRO(o)
	for _, f := range []string{"labels", "annotations"} {
		v, ok := m[f]
		if !ok || v == nil {
			continue
		}
		mm, ok := v.(map[string]interface{})
		if !ok {
			return errBadRequest("metadata." + f + " must be a map of strings")
		}
		for _, x := range mm {
			if _, ok := x.(string); !ok {
				return errBadRequest("metadata." + f + " values must be strings")
			}
		}
	}
	if v, ok := m["finalizers"]; ok && v != nil {
		l, ok := v.([]interface{})
		if !ok {
			return errBadRequest("metadata.finalizers must be a list of strings")
		}
		for _, x := range l {
			if _, ok := x.(string); !ok {
				return errBadRequest("metadata.finalizers must be a list of strings")
			}
		}
	}
	if v, ok := m["ownerReferences"]; ok && v != nil {
		if _, ok := v.([]interface{}); !ok {
			return errBadRequest("metadata.ownerReferences must be a list")
		}
	}
	// the API server bounds the total size of all annotations of an object (256 KiB)
	if ann, ok := m["annotations"].(map[string]interface{}); ok {
		total := 0
		for k, v := range ann {
			total += len(k)
			if vs, ok := v.(string); ok {
				total += len(vs)
			}
		}
		if total > 256*1024 {
			return errInvalid(r, name, fmt.Sprintf("metadata.annotations: Too long: must have at most 262144 bytes (has %d)", total))
		}
	}
	return nil
}

func normalizeMeta(o Object) {
	// a null top-level status is pruned by the real server (non-nullable field)
	if v, ok := o["status"]; ok && v == nil {
		delete(o, "status")
	}
	m := meta(o)
	// empty collections are omitted by the real server's serializer
	for _, f := range []string{"labels", "annotations"} {
		if mm, ok := m[f].(map[string]interface{}); ok && len(mm) == 0 {
			delete(m, f)
		}
		if v, ok := m[f]; ok && v == nil {
			delete(m, f)
		}
	}
	for _, f := range []string{"finalizers", "ownerReferences"} {
		if l, ok := m[f].([]interface{}); ok && len(l) == 0 {
			delete(m, f)
		}
		if v, ok := m[f]; ok && v == nil {
			delete(m, f)
		}
	}
	delete(m, "managedFields")
	delete(m, "selfLink")
}

func specPart(o Object) []byte {
	c := Object{}
	for k, v := range o {
		if k == "metadata" || k == "status" {
			continue
		}
		c[k] = v
	}
	return canon(c)
}

func (s *Store) nsExists(ns string) bool {
	nsRes := s.resources["/namespaces"]
	if nsRes == nil {
		return true
	}
	return s.objs[objKey{nsRes.Key(), "", ns}] != nil
}

// Create implements POST.
// validObjectName: DNS-1123 subdomain, at most 253 characters.
func validObjectName(name string) bool {
	if len(name) == 0 || len(name) > 253 {
		return false
	}
	prev := byte('.')
	for i := 0; i < len(name); i++ {
		c := name[i]
		alnum := (c >= 'a' && c <= 'z') || (c >= '0' && c <= '9')
		switch {
		case alnum:
		case c == '-':
			if prev == '.' {
				return false
			}
		case c == '.':
			if prev == '.' || prev == '-' {
				return false
			}
		default:
			return false
		}
		prev = c
	}
	return prev != '.' && prev != '-'
}

func (s *Store) Create(r *Resource, ns string, body Object, actor string) (Object, *StatusErr) {
	o := deepCopy(body)
	m := meta(o)
	name, _ := m["name"].(string)
	if name == "" {
		if gn, _ := m["generateName"].(string); gn != "" {
			s.uidCount["gen/"+gn]++
			name = fmt.Sprintf("%s%05d", gn, s.uidCount["gen/"+gn])
			m["name"] = name
		}
	}
	if name == "" {
		return nil, errInvalid(r, "", "metadata.name: Required value: name or generateName is required")
	}
	if !validObjectName(name) {
		// every kind of the universe validates names as DNS-1123 subdomains (custom
		// resources, ConfigMap, Secret, ControllerRevision); '/', '%' and upper case are refused
		return nil, errInvalid(r, name, fmt.Sprintf("metadata.name: Invalid value: %q: a lowercase RFC 1123 subdomain must consist of lower case alphanumeric characters, '-' or '.', and must start and end with an alphanumeric character", name))
	}
	if r.Namespaced {
		if bns, _ := m["namespace"].(string); bns != "" && ns != "" && bns != ns {
			return nil, errBadRequest("the namespace of the provided object does not match the namespace sent on the request")
		}
		if ns == "" {
			// POST on the cluster-wide collection of a namespaced resource
			return nil, errMethod("create is not supported on the all-namespaces collection of " + r.Plural)
		}
		m["namespace"] = ns
		if !s.nsExists(ns) {
			return nil, &StatusErr{Code: 404, Reason: "NotFound", Message: fmt.Sprintf("namespaces %q not found", ns)}
		}
	} else {
		delete(m, "namespace")
		ns = ""
	}
	if k, _ := o["kind"].(string); k != "" && k != r.Kind {
		return nil, errBadRequest(fmt.Sprintf("kind %q does not match resource %s", k, r.Plural))
	}
	if av, _ := o["apiVersion"].(string); av != "" && av != r.APIVersion() {
		return nil, errBadRequest(fmt.Sprintf("apiVersion %q does not match %s", av, r.APIVersion()))
	}
	o["kind"] = r.Kind
	o["apiVersion"] = r.APIVersion()
	if e := validateRevisionSchema(r, name, o); e != nil {
		return nil, e
	}
	if e := validateMetaTypes(r, name, o); e != nil {
		return nil, e
	}
	if e := validateOwnerRefs(r, name, o); e != nil {
		return nil, e
	}
	k := objKey{r.Key(), ns, name}
	if s.objs[k] != nil {
		return nil, errExists(r, name)
	}
	s.uidCount[k.String()]++
	m["uid"] = fmt.Sprintf("uid-%s-%s-%s-%d", strings.ToLower(r.Kind), ns, name, s.uidCount[k.String()])
	m["creationTimestamp"] = s.now()
	delete(m, "deletionTimestamp")
	delete(m, "deletionGracePeriodSeconds")
	delete(m, "resourceVersion")
	if r.Generation {
		m["generation"] = int64(1)
	} else {
		delete(m, "generation")
	}
	if r.Status {
		delete(o, "status")
	}
	if s.Defaulter != nil {
		s.Defaulter(r, o)
	}
	normalizeMeta(o)
	return s.commit(r, k, o, "ADDED", actor), nil
}

// Update implements PUT on the main resource (sub == "") or on /status.
func (s *Store) Update(r *Resource, ns, name, sub string, body Object, actor string) (Object, *StatusErr) {
	k := objKey{r.Key(), ns, name}
	cur := s.objs[k]
	if cur == nil {
		return nil, errNotFound(r, name)
	}
	if sub == "status" && !r.Status {
		return nil, &StatusErr{Code: 404, Reason: "NotFound", Message: "the server could not find the requested resource"}
	}
	o := deepCopy(body)
	m := meta(o)
	if bn, _ := m["name"].(string); bn != name {
		return nil, errBadRequest("the name of the object does not match the name on the URL")
	}
	if r.Namespaced {
		if bns, _ := m["namespace"].(string); bns != "" && bns != ns {
			return nil, errBadRequest("the namespace of the provided object does not match the namespace sent on the request")
		}
	}
	if kk, _ := o["kind"].(string); kk != "" && kk != r.Kind {
		return nil, errBadRequest(fmt.Sprintf("kind %q does not match resource %s", kk, r.Plural))
	}
	curMeta := metaRO(cur.obj)
	if uid, _ := m["uid"].(string); uid != "" && uid != curMeta["uid"] {
		return nil, errConflict(r, name, fmt.Sprintf("Precondition failed: UID in precondition: %v, UID in object meta: %v", uid, curMeta["uid"]))
	}
	if rv, _ := m["resourceVersion"].(string); rv != "" && rv != curMeta["resourceVersion"] {
		return nil, errConflict(r, name, "the object has been modified; please apply your changes to the latest version and try again")
	}
	if e := validateRevisionSchema(r, name, o); e != nil {
		return nil, e
	}
	if e := validateMetaTypes(r, name, o); e != nil {
		return nil, e
	}
	var n Object
	if sub == "status" {
		n = deepCopy(cur.obj)
		if st, ok := o["status"]; ok && st != nil {
			n["status"] = st
		} else {
			delete(n, "status")
		}
	} else {
		n = o
		n["kind"] = r.Kind
		n["apiVersion"] = r.APIVersion()
		nm := meta(n)
		if r.Namespaced {
			nm["namespace"] = ns
		} else {
			delete(nm, "namespace")
		}
		for _, f := range []string{"uid", "creationTimestamp", "deletionTimestamp", "deletionGracePeriodSeconds", "generation", "resourceVersion"} {
			if v, ok := curMeta[f]; ok {
				nm[f] = v
			} else {
				delete(nm, f)
			}
		}
		if r.Status {
			if st, ok := cur.obj["status"]; ok {
				n["status"] = st
			} else {
				delete(n, "status")
			}
		}
		if e := validateOwnerRefs(r, name, n); e != nil {
			return nil, e
		}
		if curMeta["deletionTimestamp"] != nil {
			old := map[string]bool{}
			for _, f := range finalizersOf(cur.obj) {
				old[f] = true
			}
			for _, f := range finalizersOf(n) {
				if !old[f] {
					return nil, &StatusErr{Code: 422, Reason: "Invalid", Message: fmt.Sprintf("%s %q is invalid: metadata.finalizers: Forbidden: no new finalizers can be added if the object is being deleted, found new finalizers []string{%q}", r.Kind, name, f)}
				}
			}
		}
		normalizeMeta(n)
		if r.Generation && !bytes.Equal(specPart(n), specPart(cur.obj)) {
			g, _ := curMeta["generation"].(int64)
			meta(n)["generation"] = g + 1
		}
	}
	meta(n)["resourceVersion"] = curMeta["resourceVersion"]
	if bytes.Equal(canon(n), cur.raw) {
		return mustParse(cur.raw), nil // no-op: no RV bump, no event
	}
	if metaRO(n)["deletionTimestamp"] != nil && len(finalizersOf(n)) == 0 {
		return s.commit(r, k, n, "DELETED", actor), nil
	}
	return s.commit(r, k, n, "MODIFIED", actor), nil
}

// DeleteOpts is the parsed DeleteOptions body.
type DeleteOpts struct {
	UID         string
	RV          string
	Propagation string // "", Background, Foreground, Orphan
}

func parseDeleteOpts(body []byte) DeleteOpts {
	var d DeleteOpts
	if len(bytes.TrimSpace(body)) == 0 {
		return d
	}
	o, err := parse(body)
	if err != nil {
		return d
	}
	if p, ok := o["preconditions"].(map[string]interface{}); ok {
		d.UID, _ = p["uid"].(string)
		d.RV, _ = p["resourceVersion"].(string)
	}
	d.Propagation, _ = o["propagationPolicy"].(string)
	if d.Propagation == "" {
		if orphan, ok := o["orphanDependents"].(bool); ok && orphan {
			d.Propagation = "Orphan"
		}
	}
	return d
}

// Delete implements DELETE of one object.
func (s *Store) Delete(r *Resource, ns, name string, opts DeleteOpts, actor string) (Object, *StatusErr) {
	k := objKey{r.Key(), ns, name}
	cur := s.objs[k]
	if cur == nil {
		return nil, errNotFound(r, name)
	}
	curMeta := metaRO(cur.obj)
	if opts.UID != "" && opts.UID != curMeta["uid"] {
		return nil, errConflict(r, name, fmt.Sprintf("Precondition failed: UID in precondition: %v, UID in object meta: %v", opts.UID, curMeta["uid"]))
	}
	if opts.RV != "" && opts.RV != curMeta["resourceVersion"] {
		return nil, errConflict(r, name, "Precondition failed: ResourceVersion in precondition does not match")
	}
	n := deepCopy(cur.obj)
	nm := meta(n)
	fins := finalizersOf(n)
	add := func(f string) {
		for _, x := range fins {
			if x == f {
				return
			}
		}
		fins = append(fins, f)
	}
	remove := func(f string) {
		out := fins[:0]
		for _, x := range fins {
			if x != f {
				out = append(out, x)
			}
		}
		fins = out
	}
	switch opts.Propagation {
	case "Foreground":
		add("foregroundDeletion")
		remove("orphan")
	case "Orphan":
		add("orphan")
		remove("foregroundDeletion")
	}
	if len(fins) > 0 {
		l := make([]interface{}, len(fins))
		for i, f := range fins {
			l[i] = f
		}
		nm["finalizers"] = l
		if nm["deletionTimestamp"] == nil {
			nm["deletionTimestamp"] = s.now()
			nm["deletionGracePeriodSeconds"] = int64(0)
		}
		nm["resourceVersion"] = curMeta["resourceVersion"]
		if bytes.Equal(canon(n), cur.raw) {
			return mustParse(cur.raw), nil
		}
		return s.commit(r, k, n, "MODIFIED", actor), nil
	}
	return s.commit(r, k, n, "DELETED", actor), nil
}

// removeApplied removes from dst everything that prev set and next no longer sets.
func removeApplied(dst, prev, next Object) {
	for k, pv := range prev {
		nv, still := next[k]
		if !still {
			delete(dst, k)
			continue
		}
		pm, pok := pv.(map[string]interface{})
		nm, nok := nv.(map[string]interface{})
		dm, dok := dst[k].(map[string]interface{})
		if pok && nok && dok {
			removeApplied(dm, pm, nm)
		}
	}
}

func mergeApplied(dst, src Object) {
	for k, v := range src {
		sm, sok := v.(map[string]interface{})
		dm, dok := dst[k].(map[string]interface{})
		if sok && dok {
			mergeApplied(dm, sm)
			continue
		}
		dst[k] = v
	}
}

// Apply implements a simplified server-side apply PATCH (no schema, no
// per-field conflicts; lists are atomic; force is implied).
func (s *Store) Apply(r *Resource, ns, name, manager string, body Object, actor string) (Object, *StatusErr) {
	if manager == "" {
		return nil, errBadRequest("PatchOptions.meta.k8s.io \"\" is invalid: fieldManager: Required value: is required for apply patch")
	}
	k := objKey{r.Key(), ns, name}
	cfg := deepCopy(body)
	cm := meta(cfg)
	if bn, _ := cm["name"].(string); bn != "" && bn != name {
		return nil, errBadRequest("the name of the object does not match the name on the URL")
	}
	for _, f := range []string{"uid", "resourceVersion", "creationTimestamp", "generation", "managedFields"} {
		delete(cm, f)
	}
	cur := s.objs[k]
	if cur == nil {
		cm["name"] = name
		created, e := s.Create(r, ns, cfg, actor)
		if e != nil {
			return nil, e
		}
		s.applied[k] = map[string]Object{manager: cfg}
		return created, nil
	}
	n := deepCopy(cur.obj)
	// metadata.ownerReferences is a list-map keyed by uid in the real schema:
	// applying it upserts the manager's entries and leaves other owners alone.
	curRefs := getList(n, "metadata", "ownerReferences")
	prev := s.applied[k][manager]
	if prev != nil {
		removeApplied(n, prev, cfg)
	}
	keepStatus := n["status"]
	mergeApplied(n, deepCopy(cfg))
	newRefs := getList(cfg, "metadata", "ownerReferences")
	if len(curRefs) > 0 || len(newRefs) > 0 {
		applied := map[string]bool{}
		for _, r := range newRefs {
			applied[getStr(r, "uid")] = true
		}
		dropped := map[string]bool{}
		for _, r := range getList(prev, "metadata", "ownerReferences") {
			if u := getStr(r, "uid"); !applied[u] {
				dropped[u] = true
			}
		}
		var merged []interface{}
		for _, r := range curRefs {
			u := getStr(r, "uid")
			if !applied[u] && !dropped[u] {
				merged = append(merged, r)
			}
		}
		merged = append(merged, newRefs...)
		setPath(n, merged, "metadata", "ownerReferences")
	}
	if r.Status {
		if keepStatus != nil {
			n["status"] = keepStatus
		} else {
			delete(n, "status")
		}
	}
	meta(n)["resourceVersion"] = ""
	delete(meta(n), "resourceVersion")
	res, e := s.Update(r, ns, name, "", n, actor)
	if e != nil {
		return nil, e
	}
	if s.applied[k] == nil {
		s.applied[k] = map[string]Object{}
	}
	s.applied[k][manager] = cfg
	return res, nil
}

// JSONPatch implements PATCH with application/json-patch+json.
func (s *Store) JSONPatch(r *Resource, ns, name string, patch []byte, actor string) (Object, *StatusErr) {
	k := objKey{r.Key(), ns, name}
	cur := s.objs[k]
	if cur == nil {
		return nil, errNotFound(r, name)
	}
	p, err := jsonpatch.DecodePatch(patch)
	if err != nil {
		return nil, errBadRequest("invalid JSON patch: " + err.Error())
	}
	out, err := p.Apply(cur.raw)
	if err != nil {
		return nil, &StatusErr{Code: 422, Reason: "Invalid", Message: "the server rejected our request due to an error in our request: " + err.Error()}
	}
	n, err := parse(out)
	if err != nil {
		return nil, errBadRequest(err.Error())
	}
	return s.Update(r, ns, name, "", n, actor)
}

// MergePatch implements PATCH with application/merge-patch+json.
func (s *Store) MergePatch(r *Resource, ns, name string, patch []byte, actor string) (Object, *StatusErr) {
	k := objKey{r.Key(), ns, name}
	cur := s.objs[k]
	if cur == nil {
		return nil, errNotFound(r, name)
	}
	out, err := jsonpatch.MergePatch(cur.raw, patch)
	if err != nil {
		return nil, errBadRequest("invalid merge patch: " + err.Error())
	}
	n, err := parse(out)
	if err != nil {
		return nil, errBadRequest(err.Error())
	}
	return s.Update(r, ns, name, "", n, actor)
}

// Snapshot reconstructs the objects of r as of resource version rv.
func (s *Store) Snapshot(r *Resource, ns string, rv int64) []Object {
	state := map[objKey][]byte{}
	for _, ev := range s.History {
		if ev.RV > rv {
			break
		}
		if ev.Res != r || (ns != "" && ev.NS != ns) {
			continue
		}
		k := objKey{r.Key(), ev.NS, ev.Name}
		if ev.Type == "DELETED" {
			delete(state, k)
		} else {
			state[k] = ev.Raw
		}
	}
	keys := make([]objKey, 0, len(state))
	for k := range state {
		keys = append(keys, k)
	}
	sort.Slice(keys, func(i, j int) bool { return keys[i].String() < keys[j].String() })
	out := make([]Object, 0, len(keys))
	for _, k := range keys {
		out = append(out, mustParse(state[k]))
	}
	return out
}

// VersionAt returns the raw object (kind r, ns/name) as it was at exactly
// resourceVersion rv, or nil when no such version was ever stored.
func (s *Store) VersionAt(r *Resource, ns, name string, rv int64) []byte {
	for i := range s.History {
		ev := &s.History[i]
		if ev.RV == rv && ev.Res == r && ev.NS == ns && ev.Name == name {
			return ev.Raw
		}
	}
	return nil
}

// Compact forgets watch history up to rv: a WATCH from an older version gets 410.
func (s *Store) Compact(rv int64) {
	if rv > s.compactRV {
		s.compactRV = rv
	}
}
