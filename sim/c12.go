package sim

import (
	"fmt"
	"strings"
	"time"
)

// C12Scenario: failures are retried, benign races tolerated, one bad child blocks nothing.
// With a fault plan (reference / single-fault runs) the schedule is the fair one and
// exactly one failure is injected; without a plan the run is a random multi-fault
// run with watch breaks, deletions during the gap and crashes.
func C12Scenario() *Scenario {
	return &Scenario{Prop: "C12", Init: func(w *World) {
		t := w.T
		decorator := t.Pick(4, "ckind") == 3
		var sig map[string]string
		var finalCheck func(w *World, pokeStep int) *Violation
		var pokeAll func(w *World)
		var nudgeAll func(w *World)
		var deleteOne func(w *World)
		var edit func(w *World)
		var chaos func(b *EnvBudget) []EnvOp
		var cs *Setup
		var ds *DSetup
		if decorator {
			ds = NewDecoratorSetup(w, DGenOpts{MaxDecorators: 1, MaxWorkers: 2})
			sig = copySig(ds.Sig)
			pokeAll = func(w *World) {
				for _, p := range ds.Targets {
					EditObject(w, p.Res, p.NS, p.Name, "user", func(o Object) { setPath(o, "1", "metadata", "annotations", "poke") })
				}
			}
			deleteOne = func(w *World) {
				p := ds.Targets[0]
				w.Store.Delete(p.Res, p.NS, p.Name, DeleteOpts{Propagation: "Background"}, "user")
			}
			nudgeAll = func(w *World) {
				for _, p := range ds.Targets {
					EditObject(w, p.Res, p.NS, p.Name, "user", func(o Object) { setPath(o, "1", "metadata", "annotations", "nudge") })
				}
			}
			edit = func(w *World) {
				for _, p := range ds.Targets {
					EditObject(w, p.Res, p.NS, p.Name, "user", func(o Object) {
						setPath(o, "c-new", "spec", "color")
						setPath(o, int64(2), "spec", "replicas")
					})
				}
			}
			chaos = func(b *EnvBudget) []EnvOp {
				ops := ds.TargetEdits(b)
				for _, op := range ds.AttachmentChaos(b) {
					if strings.HasPrefix(op.Name, "a-delete ") || strings.HasPrefix(op.Name, "a-drift ") {
						ops = append(ops, op)
					}
				}
				return ops
			}
			finalCheck = func(w *World, pokeStep int) *Violation { return c12DecoratorFinal(w, ds, pokeStep) }
		} else {
			g := GenOpts{MaxWorkers: 2, MaxParents: 2, Methods: []string{"InPlace", "Recreate", "", "RollingInPlace", "RollingRecreate"}, AvoidKnown: true, Finalize: 0}
			if t.Pick(5, "ssa") == 4 {
				// server-side apply, kept clear of its two recorded findings (rolling
				// strategies; kinds without metadata.generation)
				g.ForceSSA = true
				g.Methods = []string{"InPlace", "Recreate", ""}
				g.Kinds = []*Resource{ResWidget, ResGadget}
			}
			cs = NewCompositeSetup(w, g)
			sig = copySig(cs.Sig)
			pokeAll = func(w *World) {
				for _, p := range cs.Parents {
					EditObject(w, p.Res, p.NS, p.Name, "user", func(o Object) { setPath(o, "1", "metadata", "annotations", "poke") })
				}
			}
			deleteOne = func(w *World) {
				p := cs.Parents[0]
				w.Store.Delete(p.Res, p.NS, p.Name, DeleteOpts{Propagation: "Background"}, "user")
			}
			nudgeAll = func(w *World) {
				for _, p := range cs.Parents {
					EditObject(w, p.Res, p.NS, p.Name, "user", func(o Object) { setPath(o, "1", "metadata", "annotations", "nudge") })
				}
			}
			edit = func(w *World) {
				for _, p := range cs.Parents {
					EditObject(w, p.Res, p.NS, p.Name, "user", func(o Object) {
						setPath(o, "c-new", "spec", "template", "color")
						setPath(o, getInt(o, "spec", "replicas")+1, "spec", "replicas")
					})
				}
			}
			chaos = func(b *EnvBudget) []EnvOp {
				ops := cs.ParentEdits(b)
				// other writers delete and drift children, but never occupy a desired child's
				// name with an object the parent cannot own (the precondition of convergence)
				for _, op := range cs.ChildChaos(b) {
					if strings.HasPrefix(op.Name, "delete ") || strings.HasPrefix(op.Name, "drift-") {
						ops = append(ops, op)
					}
				}
				return append(ops, cs.ParentLifecycle(b)...)
			}
			finalCheck = func(w *World, pokeStep int) *Violation {
				return c01Check(w, cs.Cfg, cs.Opts, cs.Parents, pokeStep, 0)
			}
		}
		sig["kind"] = map[bool]string{true: "decorator", false: "composite"}[decorator]
		w.ExtraQuiet = 12e9 // a 429 re-queues after the advertised 7 s
		w.Cfg["ckind"] = sig["kind"]
		fair := &Policy{Name: "fair+gc", EnvWhenIdle: true}
		gcOnly := func(w *World) []EnvOp { return GCOps(w) }
		pokeStep := 0
		budget := func(w *World) *Violation {
			last := ""
			if len(w.Errs) > 0 {
				last = w.Errs[len(w.Errs)-1].Msg
			}
			s2 := copySig(sig)
			s2["fault"] = planKind(w)
			s2["parentDeletedOrphan"] = fmt.Sprint(w.Cfg["parentDeletedOrphan"] == "true")
			return &Violation{Prop: "C12", Class: "no-quiescence-after-faults", Sig: s2,
				Detail: fmt.Sprintf("after the fault window (%s) the queues did not go quiet within %d steps: %d sync errors, last: %.300s", planName(w), w.step, len(w.Errs), last)}
		}
		finish := Stage{Name: "finish", Quiet: true, MaxSteps: 3000, Policy: fair, OnBudget: budget,
			Do: func(w *World) {
				if w.Plan != nil {
					w.Plan.Armed = false
				}
				w.EnvOps = gcOnly
				pokeStep = w.step
				pokeAll(w)
			},
			Check: func(w *World) *Violation {
				if v := finalCheck(w, pokeStep); v != nil {
					if v.Prop != "HARNESS" {
						v.Prop = "C12"
						v.Class = "not-converged-after-faults:" + v.Class
						v.Sig = copySig(sig)
						v.Sig["fault"] = planKind(w)
						v.Detail = "after " + planName(w) + ": " + v.Detail
					}
					return v
				}
				if w.Plan != nil && w.Plan.Kind != "" {
					return c12SingleFault(w, sig, cs, ds)
				}
				return nil
			}}
		// A failure that the code takes for a benign race (an injected 404 for an object
		// that exists) is not retried; like a resync would, one more trigger of every
		// parent lets such a sync be repeated before convergence and quietness are judged.
		nudge := Stage{Name: "nudge", Quiet: true, MaxSteps: 3000, Policy: fair, OnBudget: budget, Do: func(w *World) {
			if w.Plan != nil {
				w.Plan.Armed = false
			}
			w.EnvOps = gcOnly
			nudgeAll(w)
		}}
		if w.Plan != nil {
			// reference or single-fault run: fair schedule, deterministic prefix
			w.EnvOps = gcOnly
			w.Stages = []Stage{
				{Name: "work", Quiet: true, MaxSteps: 3000, Policy: fair, OnBudget: budget, Do: func(w *World) { w.Plan.Armed = true }},
				{Name: "edit", Quiet: true, MaxSteps: 3000, Policy: fair, OnBudget: budget, Do: edit},
				{Name: "delete", Quiet: true, MaxSteps: 3000, Policy: fair, OnBudget: budget, Do: deleteOne},
				nudge,
				finish,
			}
			return
		}
		if t.Pick(4, "mode") == 3 {
			// an outage: from one moment on every hook call fails, for 2 s, 1 minute or 7
			// minutes of simulated time (the syncs are retried with growing back-off all the
			// while); then the webhook is back, and nothing else happens - no edit, no poke.
			// Every parent whose sync failed during the outage must be synced successfully
			// again by the retries alone: no failure drops the work for good.
			parentKey := "parent"
			var parents []ParentRef
			if decorator {
				parentKey, parents = "object", ds.Targets
			} else {
				parents = cs.Parents
			}
			dur := []time.Duration{2 * time.Second, time.Minute, 7 * time.Minute}[t.Pick(3, "outage")]
			w.Cfg["policy"] = fmt.Sprintf("outage %v", dur)
			sig["mode"] = "outage"
			w.EnvOps = gcOnly
			var t0 time.Duration
			startStep, endStep := 0, 0
			outage := &Policy{Name: "outage", HookFault: 1000, HookFaults: []string{"500", "refused"}}
			w.Stages = []Stage{
				{Name: "work", Quiet: true, MaxSteps: 3000, Policy: fair, OnBudget: budget},
				{Name: "outage", Policy: outage, MaxSteps: 6000, Do: func(w *World) { t0 = w.Now(); startStep = w.step; edit(w) },
					Until: func(w *World) bool { return w.Now() > t0+dur }},
				{Name: "recover", Quiet: true, MaxSteps: 6000, Policy: fair, OnBudget: budget, Do: func(w *World) { endStep = w.step },
					Check: func(w *World) *Violation {
						for _, p := range parents {
							if p.Get(w) == nil {
								continue
							}
							failed, lastFailure, recovered := 0, 0, false
							for _, h := range w.Hooks {
								if (h.Kind != "sync" && h.Kind != "finalize") || !hookParentIs(h, parentKey, p) {
									continue
								}
								if h.ParkStep > startStep && h.Code != 200 {
									failed++
									if h.Arrival > lastFailure {
										lastFailure = h.Arrival
									}
								}
							}
							for _, h := range w.Hooks {
								// a successful call made after the last failed one
								if (h.Kind == "sync" || h.Kind == "finalize") && hookParentIs(h, parentKey, p) && h.Code == 200 && h.Arrival > lastFailure {
									recovered = true
								}
							}
							if failed > 0 && !recovered {
								s2 := copySig(sig)
								s2["fault"] = "outage"
								return &Violation{Prop: "C12", Class: "work-dropped-after-outage", Sig: s2, Step: w.step,
									Detail: fmt.Sprintf("%s %s/%s: %d hook calls failed during an outage of %v (steps %d-%d); after it the queues went quiet without a single successful sync of this parent", p.Res.Kind, p.NS, p.Name, failed, dur, startStep, endStep)}
							}
							if failed > 0 {
								w.Probe("c12:recovered-after-outage")
							}
						}
						return nil
					}},
				nudge,
				finish,
			}
			return
		}
		// random multi-fault run
		b := &EnvBudget{Left: 3 + t.Pick(6, "envbudget")}
		w.EnvOps = func(w *World) []EnvOp {
			ops := chaos(b)
			return append(ops, GCOps(w)...)
		}
		pol := &Policy{Name: "multi-fault", Shuffle: true, HoldWatch: 100 * t.Pick(4, "hold"), EnvProb: 100, AdvanceProb: 30,
			APIFault: 30 + 40*t.Pick(3, "apirate"), APIFaults: []string{"404", "409", "exists", "410", "422", "500", "503", "504", "neterr", "lost"},
			HookFault: 40 * t.Pick(3, "hookrate"), HookFaults: []string{"500", "429", "refused", "stall", "garbage"},
			WatchBreak: 20 * t.Pick(3, "breakrate"), WatchGone: 300 * t.Pick(2, "gonerate"), Crash: 4 * t.Pick(2, "crashrate"),
			FaultFilter: func(r *ReqRec) bool { return r.Sync >= 0 }}
		w.Cfg["policy"] = fmt.Sprintf("multi hold=%d api=%d hook=%d break=%d gone=%d crash=%d", pol.HoldWatch, pol.APIFault, pol.HookFault, pol.WatchBreak, pol.WatchGone, pol.Crash)
		sig["mode"] = "multi-fault"
		w.ExtraQuiet = 12e9
		w.Stages = []Stage{
			{Name: "faults", Policy: pol, Steps: 200 + 100*t.Pick(3, "len")},
			{Name: "settle", Quiet: true, MaxSteps: 4000, Policy: fair, OnBudget: budget, Do: func(w *World) { b.Left = 0; w.EnvOps = gcOnly }},
			nudge,
			finish,
		}
	}}
}

func planKind(w *World) string {
	if w.Plan == nil || w.Plan.Kind == "" {
		return "multi"
	}
	return w.Plan.Kind
}

// c12DecoratorFinal: after the faults stop the decorator's world is converged and quiet.
func c12DecoratorFinal(w *World, ds *DSetup, pokeStep int) *Violation {
	for _, r := range w.Reqs {
		if r.ParkStep > pokeStep && r.IsWrite() && r.Fault == "" && r.Applied {
			return &Violation{Prop: "C12", Class: "write-after-convergence", Sig: ds.Sig,
				Detail: fmt.Sprintf("%s applied at step %d, after the no-op poke at step %d", r.Short(), r.ParkStep, pokeStep)}
		}
	}
	for _, e := range w.Errs {
		if e.Step > pokeStep {
			return &Violation{Prop: "C12", Class: "error-after-convergence", Sig: ds.Sig, Detail: "sync error after the poke: " + e.Msg}
		}
	}
	cfg := ds.Cfgs[0]
	mk, mv := cfg.Marker()
	for _, p := range ds.Targets {
		po := p.Get(w)
		if po == nil || !(cfg.Selects(p.Res, po) || hasFinalizer(po, cfg.FinalizerName())) {
			continue
		}
		if metaRO(po)["deletionTimestamp"] != nil && !(cfg.Finalize && hasFinalizer(po, cfg.FinalizerName()) && !hasGCFinalizer(po)) {
			continue // attachments of a target that is being deleted and cannot be finalized are not managed
		}
		var last *HookRec
		for _, h := range w.Hooks {
			if h.ParkStep > pokeStep && h.Code == 200 && (h.Kind == "sync" || h.Kind == "finalize") && hookParentIs(h, "object", p) {
				last = h
			}
		}
		if last == nil {
			return &Violation{Prop: "C12", Class: "no-sync-after-poke", Sig: ds.Sig, Detail: fmt.Sprintf("target %s/%s was never synced after its update at step %d", p.NS, p.Name, pokeStep)}
		}
		desired, _, err := desiredFromResponse(w, last.RespBody, "attachments", p.NS)
		if err != nil {
			return &Violation{Prop: "HARNESS", Class: "bad-program-response", Detail: err.Error()}
		}
		owned := map[childID]bool{}
		for _, a := range cfg.Attachments {
			for _, o := range ControlledBy(w.Store, a.Res, mstr(po, "uid")) {
				if annotationsOf(o)[mk] == mv {
					owned[childID{a.Res, mstr(o, "namespace"), mstr(o, "name")}] = true
				}
			}
		}
		for id := range desired {
			if !owned[id] {
				if occ := w.Store.Get(id.res, id.ns, id.name); occ != nil {
					// the name is taken by an object this target does not control (e.g. an
					// attachment of an earlier target of the same name that was orphaned): the
					// decorator neither adopts nor overwrites it, and convergence is promised
					// only when no foreign object occupies a desired name
					w.Probe("c12:desired-name-occupied-by-foreign-object")
					continue
				}
				return &Violation{Prop: "C12", Class: "attachments-differ-from-desired", Sig: ds.Sig, Detail: fmt.Sprintf("target %s/%s: desired attachment %s missing at quiescence", p.NS, p.Name, id)}
			}
		}
		for id := range owned {
			if _, ok := desired[id]; !ok {
				return &Violation{Prop: "C12", Class: "attachments-differ-from-desired", Sig: ds.Sig, Detail: fmt.Sprintf("target %s/%s: attachment %s is not desired but still there at quiescence", p.NS, p.Name, id)}
			}
		}
	}
	return nil
}

// c12SingleFault judges how the one injected failure was handled.
func c12SingleFault(w *World, sig map[string]string, cs *Setup, ds *DSetup) *Violation {
	kind := w.Plan.Kind
	s2 := copySig(sig)
	s2["fault"] = kind
	parentKey := "parent"
	if ds != nil {
		parentKey = "object"
	}
	isChild := func(res *Resource) bool {
		if cs != nil {
			return cs.Cfg.Rule(res) != nil
		}
		return ds.Cfgs[0].AttachmentRule(res) != nil
	}
	isParent := func(res *Resource) bool {
		if cs != nil {
			return res == cs.Cfg.Parent
		}
		return ds.Cfgs[0].ResourceRule(res) != nil
	}
	syncs := w.Syncs(parentKey)
	var fsync *SyncRec
	var freq *ReqRec
	var fhook *HookRec
	for _, sy := range syncs {
		for _, q := range sy.Reqs {
			if q.Fault == kind && q.Fault != "" && freq == nil && fhook == nil {
				fsync, freq = sy, q
			}
		}
		for _, h := range sy.Hooks {
			if h.Fault == kind && h.Fault != "" && freq == nil && fhook == nil {
				fsync, fhook = sy, h
			}
		}
	}
	if fsync == nil {
		return nil // the plan position was never reached
	}
	expect := "unspecified"
	what := ""
	switch {
	case fhook != nil:
		what = fmt.Sprintf("%s hook answered with injected %s", fhook.Kind, kind)
		if fhook.Kind == "customize" {
			expect = "unspecified"
		} else if kind == "429" && cs != nil {
			expect = "requeue-after"
		} else {
			expect = "error"
		}
	case freq != nil:
		what = fmt.Sprintf("%s with injected %s", freq.Short(), kind)
		res := freq.Res
		adoption := false
		if freq.Verb == "update" && freq.Pre != nil {
			if body, err := parse(freq.Body); err == nil && sameExceptOwnership(mustParse(freq.Pre), withStatusOf(body, mustParse(freq.Pre))) {
				adoption = true
			}
		}
		switch {
		case res == nil:
		case res == ResRevision && freq.IsWrite():
			expect = "error"
		case isChild(res) && freq.IsWrite() && !adoption && !(cs != nil && cs.Opts.Proc.SSA):
			benign := false
			switch freq.Verb {
			case "delete":
				benign = kind == "404"
			case "update":
				benign = kind == "404" || kind == "409"
			case "create":
				benign = kind == "exists"
			}
			if benign {
				expect = "benign"
			} else {
				expect = "error"
			}
		case isParent(res) && freq.Verb == "update" && (kind == "500" || kind == "503" || kind == "504" || kind == "neterr" || kind == "lost" || kind == "422" || kind == "410"):
			expect = "error"
		case isParent(res) && freq.Verb == "get" && freq.Sub == "" && (kind == "500" || kind == "503" || kind == "504"):
			// the live read of the parent inside a sync (before an adoption, before the status
			// or finalizer write): when it fails, what depended on it has not been done
			// (a connection error on a GET is retried by client-go itself and is not seen)
			expect = "error"
		}
	}
	w.Probe("c12:expect-" + expect)
	where := fmt.Sprintf("sync started at step %d: %s", fsync.StartStep, what)
	// the sync that received the failure must itself end (no worker lost)
	if fsync.EndStep == 0 && w.Incs == 1 {
		return &Violation{Prop: "C12", Class: "sync-never-finished", Sig: s2, Detail: where + ": the worker never finished this sync"}
	}
	reported := len(fsync.Errs) > 0
	// next sync of the same parent
	var next *SyncRec
	pname := ""
	if fsync.Parent != nil {
		pname = mstr(fsync.Parent, "namespace") + "/" + mstr(fsync.Parent, "name")
	}
	for _, sy := range syncs {
		if sy.StartSeq > fsync.StartSeq && sy.ID.Inc == fsync.ID.Inc && sy.Queue == fsync.Queue && sy != fsync {
			if sy.Parent == nil || pname == "" || mstr(sy.Parent, "namespace")+"/"+mstr(sy.Parent, "name") == pname {
				next = sy
				break
			}
		}
	}
	switch expect {
	case "error":
		if !reported {
			return &Violation{Prop: "C12", Class: "failure-not-reported", Sig: s2, Step: fsync.EndStep, Detail: where + ": the sync ended without reporting an error"}
		}
		if !fsync.Retried {
			return &Violation{Prop: "C12", Class: "failure-not-requeued-with-backoff", Sig: s2, Step: fsync.EndStep, Detail: where + ": the parent was not re-queued rate-limited"}
		}
		if next != nil && next.StartTime <= fsync.EndTime && fsync.Parent != nil && next.Parent != nil {
			// a watch event may legitimately re-queue the parent at once; what must not happen is a retry with no delay and no other cause
			w.Probe("c12:immediate-resync-after-error")
		}
	case "benign":
		if reported {
			return &Violation{Prop: "C12", Class: "benign-race-reported-as-error", Sig: s2, Step: fsync.EndStep,
				Detail: where + ": a documented benign race was reported as a sync error: " + fsync.Errs[0].Msg}
		}
	case "requeue-after":
		if reported {
			return &Violation{Prop: "C12", Class: "hook-429-counted-as-error", Sig: s2, Step: fsync.EndStep,
				Detail: where + ": a 429 from the hook must requeue without counting as an error: " + fsync.Errs[0].Msg}
		}
		// the advertised delay is 7 s: a sync caused by the requeue must not come earlier; other events may cause earlier syncs
		again := false
		for _, sy := range syncs {
			if sy.StartSeq > fsync.StartSeq && sy.ID.Inc == fsync.ID.Inc && sy.Queue == fsync.Queue && len(sy.Hooks) > 0 {
				again = true
			}
		}
		if !again && w.Incs == 1 {
			return &Violation{Prop: "C12", Class: "hook-429-not-requeued", Sig: s2, Step: fsync.EndStep, Detail: where + ": the parent was never synced again"}
		}
	}
	// one bad child blocks nothing: after a failed child write the sync still attempts the parent status (composite)
	if freq != nil && freq.Res != nil && isChild(freq.Res) && freq.IsWrite() && cs != nil && expect != "unspecified" {
		statusAttempt := false
		for _, q := range fsync.Reqs {
			if q.Arrival > freq.Arrival && q.Res == cs.Cfg.Parent && q.Verb == "get" {
				statusAttempt = true
			}
		}
		if !statusAttempt {
			return &Violation{Prop: "C12", Class: "status-not-attempted-after-child-failure", Sig: s2, Step: fsync.EndStep,
				Detail: where + ": after the failed child write the sync did not go on to the parent status"}
		}
		w.Probe("c12:status-attempted-after-child-failure")
	}
	// ... and the other children of that sync are still reconciled: every desired child that was
	// absent from the cache when the sync started gets its create in this sync
	if freq != nil && freq.Res != nil && isChild(freq.Res) && freq.IsWrite() && expect == "error" && cs != nil && !cs.AnyRolling() {
		var h *HookRec
		for _, x := range fsync.Hooks {
			if x.Kind == "sync" || x.Kind == "finalize" {
				h = x
			}
		}
		if h != nil && h.Code == 200 {
			pns := mstr(fsync.Parent, "namespace")
			desired, _, err := desiredFromResponse(w, h.RespBody, "children", pns)
			if err == nil {
				for id := range desired {
					if id.res == freq.Res && id.name == freq.Name {
						continue
					}
					view := w.Cache.View(fsync.ID.Inc, id.res, h.ParkStep)
					if _, ok := view[objKey{id.res.Key(), id.ns, id.name}]; ok {
						continue
					}
					created := false
					for _, q := range fsync.Reqs {
						if q.Res == id.res && (q.Verb == "create" || q.Verb == "patch") && q.Arrival > h.Arrival {
							if b, err := parse(q.Body); err == nil && mstr(b, "name") == id.name {
								created = true
							}
						}
					}
					if !created {
						return &Violation{Prop: "C12", Class: "other-child-not-reconciled-after-failure", Sig: s2, Step: fsync.EndStep,
							Detail: fmt.Sprintf("%s: the desired child %s was missing and was not created in that sync", where, id)}
					}
					w.Probe("c12:other-child-created-despite-failure")
				}
			}
		}
	}
	return nil
}
