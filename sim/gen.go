package sim

import (
	"fmt"
	"strings"
)

// GenOpts bounds what a generated composite scenario may contain.
type GenOpts struct {
	Methods       []string    // update methods to draw from
	Kinds         []*Resource // child kinds to draw from (namespaced parent)
	AllowCluster  bool
	AllowSSA      bool
	MaxWorkers    int
	MaxParents    int
	MaxReplicas   int
	Finalize      int  // 0 = draw, 1 = always, -1 = never
	GenSel        int  // 0 = draw, 1 = always, -1 = never
	Programs      bool // draw ordered / derived programs too
	AvoidKnown    bool // mostly avoid configurations with an open known finding
	ForceSSA      bool // server-side apply in every run
	PlainOwner    bool // allow hook programs whose children carry a plain ownerReference to the parent
	SameNames     bool // allow hook programs that give children in different namespaces the same name (cluster-scoped parents)
	LookAlikes    bool // populate foreign-owned / other-namespace / non-matching look-alikes
	ExpressionSel bool // parents may use matchExpressions selectors
	Resync        bool
	OneKind       bool
}

// Setup is a generated composite scenario.
type Setup struct {
	W       *World
	Cfg     *CompositeCfg
	Opts    *BootOptions
	TP      *TemplateProgram
	Parents []ParentRef
	Progs   Programs
	Sig     map[string]string
	// HealthyStatus is the Ready condition status the fair status actor reports ("" = "True").
	HealthyStatus string
	// OddObsGen: the children's own controller reports status.observedGeneration as a
	// string ("string") or a non-integral number ("fraction") instead of an integer.
	OddObsGen string
}

func isRolling(m string) bool { return strings.HasPrefix(m, "Rolling") }

func (s *Setup) AnyRolling() bool {
	for _, r := range s.Cfg.Children {
		if isRolling(r.Method) {
			return true
		}
	}
	return false
}

// ChildKinds lists the child resources of the controller.
func (s *Setup) ChildKinds() []*Resource {
	var out []*Resource
	for _, r := range s.Cfg.Children {
		out = append(out, r.Res)
	}
	return out
}

// NewCompositeSetup draws a controller configuration, parents and initial cluster contents.
func NewCompositeSetup(w *World, g GenOpts) *Setup {
	t := w.T
	InstallUniverse(w)
	cfg := &CompositeCfg{Name: "cc", Ver: 1}
	cfg.Parent = ResThing
	if g.AllowCluster && t.Pick(3, "scope") == 2 {
		cfg.Parent = ResClusterThing
	}
	kinds := g.Kinds
	if len(kinds) == 0 {
		kinds = []*Resource{ResWidget, ResConfigMap, ResGadget}
	}
	if cfg.Parent == ResClusterThing {
		kinds = append(append([]*Resource{}, kinds...), ResClusterWidget)
	}
	methods := g.Methods
	if len(methods) == 0 {
		methods = allMethods
	}
	cfg.Children = drawChildRules(t, cfg.Parent, methods, kinds)
	if g.OneKind {
		cfg.Children = cfg.Children[:1]
	}
	switch g.GenSel {
	case 0:
		cfg.GenerateSelector = t.Pick(4, "gensel") == 3
	case 1:
		cfg.GenerateSelector = true
	}
	switch g.Finalize {
	case 0:
		cfg.Finalize = t.Pick(3, "finalize") == 2
	case 1:
		cfg.Finalize = true
	}
	if g.Resync && t.Pick(3, "resync") == 2 {
		cfg.ResyncSeconds = 5 + 10*t.Pick(4, "resyncs")
	}
	opts := &BootOptions{Composites: []*CompositeCfg{cfg}}
	mw := g.MaxWorkers
	if mw == 0 {
		mw = 3
	}
	opts.Proc.Workers = 1 + t.Pick(mw, "workers")
	opts.Proc.SSA = g.ForceSSA || g.AllowSSA && t.Pick(4, "ssa") == 3
	s := &Setup{W: w, Cfg: cfg, Opts: opts}
	if g.AvoidKnown && s.AnyRolling() && (opts.Proc.SSA || !cfg.Parent.Namespaced) && t.Pick(8, "keepknown") != 7 {
		// configurations with an open known finding (cluster-scoped parent or SSA
		// with a rolling strategy) are kept only occasionally: they burn the budget
		for i := range cfg.Children {
			if isRolling(cfg.Children[i].Method) {
				cfg.Children[i].Method = "InPlace"
			}
		}
	}
	tp := &TemplateProgram{ParentKey: "parent", ChildrenKey: "children"}
	for _, r := range cfg.Children {
		tp.Kinds = append(tp.Kinds, r.Res)
	}
	if g.Programs {
		switch t.Pick(4, "program") {
		case 1:
			tp.Ordered = true
		case 2:
			tp.Derived = len(tp.Kinds) > 1
		}
	}
	tp.SetNamespace = t.Pick(2, "setns") == 1
	tp.NoLabels = cfg.GenerateSelector && t.Pick(2, "nolabels") == 1
	tp.WithStatus = t.Pick(5, "withstatus") == 4
	switch t.Pick(8, "oddhook") {
	case 6:
		tp.EmptyNS = !tp.SetNamespace
	case 5:
		tp.EchoAnnotations = g.PlainOwner
		for _, r := range cfg.Children {
			// with a Recreate strategy such a hook makes the unchanged tree delete and
			// re-create the child for ever (recorded finding): kept only now and then
			if strings.Contains(r.Method, "Recreate") && tp.EchoAnnotations && t.Pick(4, "keepecho") != 3 {
				tp.EchoAnnotations = false
			}
		}
	case 4:
		tp.SameNames = g.SameNames
	case 7:
		// (only where asked for: with dynamic apply such a hook never converges on the
		// unchanged tree - a recorded finding - and would drown every liveness oracle)
		tp.PlainOwner = g.PlainOwner
	}
	s.TP = tp
	mustCreate(w.Store, ResCompositeCtl, "", cfg.Object(), "setup")
	s.Progs = Programs{"cc": &Program{Sync: tp.SyncResponse, Finalize: tp.FinalizeResponse}}
	w.HookProgram = s.Progs.Answer
	StandardBoot(w, opts)

	mp := g.MaxParents
	if mp == 0 {
		mp = 2
	}
	mr := g.MaxReplicas
	if mr == 0 {
		mr = 4
	}
	nParents := 1 + t.Pick(mp, "nparents")
	for i := 0; i < nParents; i++ {
		name := fmt.Sprintf("p%d", i)
		ns := ""
		if cfg.Parent.Namespaced {
			ns = Namespaces[t.Pick(2, "pns")]
		}
		po := NewThing(cfg.Parent, ns, name, t.Pick(mr+1, "replicas"), "c0")
		if g.ExpressionSel && t.Pick(3, "exprsel") == 2 {
			setPath(po, Object{"matchExpressions": []interface{}{Object{"key": "app", "operator": "In", "values": []interface{}{name, name + "-alt"}}}}, "spec", "selector")
			// the template program copies matchLabels only; give it the label to use
			setPath(po, Object{"app": name}, "spec", "selector", "matchLabels")
		}
		p := mustCreate(w.Store, cfg.Parent, ns, po, "user")
		s.Parents = append(s.Parents, ParentRef{cfg.Parent, ns, name})
		nInit := t.Pick(4, "ninit")
		for j := 0; j < nInit; j++ {
			s.addInitialObject(p, g)
		}
	}
	cfg.PlainOwnerHook = tp.PlainOwner
	cfg.EchoHook = tp.EchoAnnotations
	s.Sig = compositeSig(cfg, opts)
	w.Cfg["parent"] = cfg.Parent.Kind
	w.Cfg["ssa"] = fmt.Sprint(opts.Proc.SSA)
	w.Cfg["gensel"] = fmt.Sprint(cfg.GenerateSelector)
	w.Cfg["finalize"] = fmt.Sprint(cfg.Finalize)
	w.Cfg["workers"] = fmt.Sprint(opts.Proc.Workers)
	var ms []string
	for _, r := range cfg.Children {
		ms = append(ms, r.Res.Kind+":"+r.Method)
	}
	w.Cfg["children"] = strings.Join(ms, ",")
	w.Cfg["program"] = fmt.Sprintf("ordered=%v derived=%v emptyNS=%v plainOwner=%v echoAnnotations=%v sameNames=%v", tp.Ordered, tp.Derived, tp.EmptyNS, tp.PlainOwner, tp.EchoAnnotations, tp.SameNames)
	return s
}

func (s *Setup) childNSFor(p Object, k *Resource, idx int) string {
	if !k.Namespaced {
		return ""
	}
	if ns := mstr(p, "namespace"); ns != "" {
		return ns
	}
	if idx%2 == 1 {
		return "ns2"
	}
	return "ns1"
}

// addInitialObject puts one pre-existing object around parent p.
func (s *Setup) addInitialObject(p Object, g GenOpts) {
	w, t, cfg := s.W, s.W.T, s.Cfg
	name := mstr(p, "name")
	k0 := cfg.Children[t.Pick(len(cfg.Children), "initkind")].Res
	idx := t.Pick(5, "initidx")
	cns := s.childNSFor(p, k0, idx)
	child := s.TP.desiredChild(p, k0, fmt.Sprintf("%s-%d", name, idx), cns, idx)
	if cfg.GenerateSelector {
		setPath(child, mstr(p, "uid"), "metadata", "labels", "controller-uid")
	}
	roles := 4
	if g.LookAlikes {
		roles = 8
	}
	switch t.Pick(roles, "initrole") {
	case 0: // matching orphan under a desired name
		if t.Pick(3, "orphanref") == 2 {
			// ... that already lists the parent as a plain (non-controller) owner
			setPath(child, []interface{}{ownerRefObj(p, false)}, "metadata", "ownerReferences")
		}
	case 1: // owned, drifted in an owned and a foreign field
		setPath(child, []interface{}{ownerRefObj(p, true)}, "metadata", "ownerReferences")
		setPath(child, "drift", childContentField(k0), "color")
		setPath(child, "keep-me", childContentField(k0), "foreign")
	case 2: // owned but never desired (stale)
		setPath(child, fmt.Sprintf("%s-stale%d", name, idx), "metadata", "name")
		setPath(child, []interface{}{ownerRefObj(p, true)}, "metadata", "ownerReferences")
	case 3: // foreign-controlled look-alike under another name
		setPath(child, fmt.Sprintf("%s-foreign%d", name, idx), "metadata", "name")
		refs := []interface{}{Object{"apiVersion": "v1", "kind": "Other", "name": "x", "uid": "uid-other", "controller": true}}
		if t.Pick(3, "foreignref") == 2 {
			// ... that lists the parent, too, as a plain (non-controller) owner
			refs = append(refs, ownerRefObj(p, false))
		}
		setPath(child, refs, "metadata", "ownerReferences")
	case 4: // matching orphan with an extra non-controller owner
		setPath(child, fmt.Sprintf("%s-extra%d", name, idx), "metadata", "name")
		setPath(child, []interface{}{Object{"apiVersion": "v1", "kind": "Other", "name": "y", "uid": "uid-other-y"}}, "metadata", "ownerReferences")
	case 5: // non-matching orphan under a desired-looking name
		setPath(child, fmt.Sprintf("%s-nomatch%d", name, idx), "metadata", "name")
		setPath(child, Object{"app": "someone-else"}, "metadata", "labels")
	case 6: // same name in another namespace
		if k0.Namespaced {
			cns = "ns3"
			setPath(child, "ns3", "metadata", "namespace")
		}
	case 7: // owned by us plus an extra non-controller owner, and being deleted (foreign finalizer)
		setPath(child, fmt.Sprintf("%s-dying%d", name, idx), "metadata", "name")
		setPath(child, []interface{}{ownerRefObj(p, true), Object{"apiVersion": "v1", "kind": "Other", "name": "y", "uid": "uid-other-y"}}, "metadata", "ownerReferences")
		setPath(child, []interface{}{"example.com/hold"}, "metadata", "finalizers")
	}
	created, e := w.Store.Create(k0, cns, child, "user")
	if e != nil {
		w.Probe("init-collision")
		return
	}
	if hasFinalizer(created, "example.com/hold") {
		w.Store.Delete(k0, cns, mstr(created, "name"), DeleteOpts{}, "user")
	}
}

// ---------------------------------------------------------------------------
// environment operations

// EnvBudget is a counter shared by the env ops of a scenario.
type EnvBudget struct{ Left int }

func (b *EnvBudget) take() { b.Left-- }

// ParentEdits offers spec edits of the parents (revisioned and not).
func (s *Setup) ParentEdits(b *EnvBudget) []EnvOp {
	var ops []EnvOp
	if b.Left <= 0 {
		return nil
	}
	for _, p := range s.Parents {
		p := p
		if p.Get(s.W) == nil {
			continue
		}
		ops = append(ops,
			EnvOp{"recolor " + p.Name, func(w *World) {
				b.take()
				EditObject(w, p.Res, p.NS, p.Name, "user", func(o Object) {
					setPath(o, fmt.Sprintf("c%d", w.step), "spec", "template", "color")
				})
			}},
			EnvOp{"rescale " + p.Name, func(w *World) {
				b.take()
				n := w.T.Pick(5, "newreplicas")
				EditObject(w, p.Res, p.NS, p.Name, "user", func(o Object) { setPath(o, int64(n), "spec", "replicas") })
			}},
			EnvOp{"rollback-color " + p.Name, func(w *World) {
				// back to the template the parent started with (a rollback mid-rollout)
				b.take()
				EditObject(w, p.Res, p.NS, p.Name, "user", func(o Object) { setPath(o, "c0", "spec", "template", "color") })
			}},
			EnvOp{"renote " + p.Name, func(w *World) {
				b.take()
				EditObject(w, p.Res, p.NS, p.Name, "user", func(o Object) { setPath(o, fmt.Sprintf("n%d", w.step), "spec", "note") })
			}},
		)
	}
	return ops
}

// Reselect offers edits of a parent's own child selector (spec.selector) while the
// controller is running: children and orphans change sides.
func (s *Setup) Reselect(b *EnvBudget) []EnvOp {
	var ops []EnvOp
	if b.Left <= 0 || s.Cfg.GenerateSelector {
		return nil
	}
	for _, p := range s.Parents {
		p := p
		po := p.Get(s.W)
		if po == nil {
			continue
		}
		ops = append(ops, EnvOp{"reselect " + p.Name, func(w *World) {
			b.take()
			EditObject(w, p.Res, p.NS, p.Name, "user", func(o Object) {
				cur := getStr(o, "spec", "selector", "matchLabels", "app")
				next := p.Name + "-alt"
				if cur == next {
					next = p.Name
				}
				setPath(o, Object{"matchLabels": Object{"app": next}}, "spec", "selector")
			})
			w.Probe("parent-selector-changed")
		}})
	}
	return ops
}

// ReplaceUnderWrite returns a ForceFault hook: now and then, at the moment a
// worker's update of a child is about to be served, another party deletes that
// child and creates a foreign look-alike under the same name; the update is then
// refused as a conflict (as the server would, the object's identity having
// changed). A retry that re-reads by name meets an object it never observed.
func (s *Setup) ReplaceUnderWrite(permille int) func(r *ReqRec) string {
	w := s.W
	return func(r *ReqRec) string {
		if r.Sync < 0 || r.Verb != "update" || r.Sub != "" || r.Res == nil || s.Cfg.Rule(r.Res) == nil {
			return ""
		}
		cur := w.Store.Get(r.Res, r.NS, r.Name)
		if cur == nil || len(getList(cur, "metadata", "finalizers")) > 0 {
			return ""
		}
		// ownership edits (adoption, release) are the rare and interesting writes: they get
		// a much higher chance than content updates
		chance := permille
		if body, err := parse(r.Body); err == nil && sameExceptOwnership(cur, withStatusOf(body, cur)) {
			chance = 350
		}
		if !w.T.Chance(chance, "replace-under-write?") {
			return ""
		}
		w.Store.Delete(r.Res, r.NS, r.Name, DeleteOpts{}, "user")
		n := Object{"apiVersion": cur["apiVersion"], "kind": cur["kind"],
			"metadata":               Object{"name": r.Name, "labels": Object{"app": "someone-else"}},
			childContentField(r.Res): Object{"made-by": "somebody-else"}}
		if _, e := w.Store.Create(r.Res, r.NS, n, "user"); e != nil {
			return ""
		}
		w.logf("env replace-under-write %s %s/%s", r.Res.Kind, r.NS, r.Name)
		w.Probe("child-replaced-under-a-write")
		return "409"
	}
}

// allChildren lists every object of the controller's child kinds.
func (s *Setup) allChildren() []Object {
	var out []Object
	for _, k := range s.ChildKinds() {
		out = append(out, s.W.Store.List(k, "")...)
	}
	return out
}

func resOf(w *World, o Object) *Resource {
	av, _ := o["apiVersion"].(string)
	g := ""
	if i := strings.IndexByte(av, '/'); i >= 0 {
		g = av[:i]
	}
	return w.Store.ResourceByKind(g, getStr(o, "kind"))
}

// ChildChaos offers operations of other writers on child objects: delete,
// delete-and-recreate under the same name, drift, relabel, ownership edits.
func (s *Setup) ChildChaos(b *EnvBudget) []EnvOp {
	if b.Left <= 0 {
		return nil
	}
	w := s.W
	var ops []EnvOp
	for _, c := range s.allChildren() {
		c := c
		res := resOf(w, c)
		ns, name := mstr(c, "namespace"), mstr(c, "name")
		id := res.Kind + "/" + ns + "/" + name
		ops = append(ops,
			EnvOp{"delete " + id, func(w *World) {
				b.take()
				w.Store.Delete(res, ns, name, DeleteOpts{}, "user")
			}},
			EnvOp{"recreate-as-orphan " + id, func(w *World) {
				b.take()
				// delete and recreate under the same name: same labels, no owner
				old := w.Store.Get(res, ns, name)
				if old == nil {
					return
				}
				EditObject(w, res, ns, name, "user", func(o Object) { delete(meta(o), "finalizers") })
				w.Store.Delete(res, ns, name, DeleteOpts{}, "user")
				n := Object{"apiVersion": old["apiVersion"], "kind": old["kind"],
					"metadata": Object{"name": name, "labels": metaRO(old)["labels"]}, childContentField(res): Object{"recreated": "yes"}}
				w.Store.Create(res, ns, n, "user")
			}},
			EnvOp{"recreate-foreign " + id, func(w *World) {
				b.take()
				old := w.Store.Get(res, ns, name)
				if old == nil {
					return
				}
				EditObject(w, res, ns, name, "user", func(o Object) { delete(meta(o), "finalizers") })
				w.Store.Delete(res, ns, name, DeleteOpts{}, "user")
				n := Object{"apiVersion": old["apiVersion"], "kind": old["kind"],
					"metadata": Object{"name": name, "labels": metaRO(old)["labels"],
						"ownerReferences": []interface{}{Object{"apiVersion": "v1", "kind": "Other", "name": "z", "uid": "uid-other-z", "controller": true}}},
					childContentField(res): Object{"recreated": "foreign"}}
				w.Store.Create(res, ns, n, "user")
			}},
			EnvOp{"drift-replaced " + id, func(w *World) {
				// deleted and created again by somebody who keeps its owner references and
				// labels (a restore, `kubectl replace --force`): a new object - new UID,
				// generation back to 1 - with older content in a field the hook specifies
				b.take()
				old := w.Store.Get(res, ns, name)
				if old == nil || len(ownerRefsOf(old)) == 0 {
					return
				}
				EditObject(w, res, ns, name, "user", func(o Object) { delete(meta(o), "finalizers") })
				w.Store.Delete(res, ns, name, DeleteOpts{}, "user")
				if w.Store.Get(res, ns, name) != nil {
					return
				}
				md := Object{"name": name, "ownerReferences": metaRO(old)["ownerReferences"]}
				if l := metaRO(old)["labels"]; l != nil {
					md["labels"] = l
				}
				content := deepCopyAny(old[childContentField(res)])
				n := Object{"apiVersion": old["apiVersion"], "kind": old["kind"], "metadata": md, childContentField(res): content}
				setPath(n, fmt.Sprintf("restored%d", w.step), childContentField(res), "color")
				w.Store.Create(res, ns, n, "user")
			}},
			EnvOp{"drift-owned " + id, func(w *World) {
				b.take()
				EditObject(w, res, ns, name, "user", func(o Object) { setPath(o, fmt.Sprintf("drift%d", w.step), childContentField(res), "color") })
			}},
			EnvOp{"drift-list " + id, func(w *World) {
				b.take()
				EditObject(w, res, ns, name, "user", func(o Object) {
					setPath(o, []interface{}{"--alpha", fmt.Sprintf("--drift%d", w.step)}, childContentField(res), "args")
				})
			}},
			EnvOp{"drift-foreign " + id, func(w *World) {
				b.take()
				EditObject(w, res, ns, name, "user", func(o Object) { setPath(o, fmt.Sprintf("f%d", w.step), childContentField(res), "foreign") })
			}},
			EnvOp{"unlabel " + id, func(w *World) {
				b.take()
				EditObject(w, res, ns, name, "user", func(o Object) { setPath(o, Object{"app": "moved-away"}, "metadata", "labels") })
			}},
			EnvOp{"drop-owner " + id, func(w *World) {
				b.take()
				EditObject(w, res, ns, name, "user", func(o Object) { delete(meta(o), "ownerReferences") })
			}},
			EnvOp{"foreign-takes-over " + id, func(w *World) {
				b.take()
				EditObject(w, res, ns, name, "user", func(o Object) {
					setPath(o, []interface{}{Object{"apiVersion": "v1", "kind": "Other", "name": "z", "uid": "uid-other-z", "controller": true}}, "metadata", "ownerReferences")
				})
			}},
		)
	}
	return ops
}

// OrphanOps offers creation of new orphans next to a parent.
func (s *Setup) OrphanOps(b *EnvBudget) []EnvOp {
	if b.Left <= 0 {
		return nil
	}
	var ops []EnvOp
	for _, p := range s.Parents {
		p := p
		ops = append(ops, EnvOp{"new-orphan " + p.Name, func(w *World) {
			b.take()
			po := p.Get(w)
			if po == nil {
				return
			}
			k := s.Cfg.Children[w.T.Pick(len(s.Cfg.Children), "orphankind")].Res
			idx := w.T.Pick(6, "orphanidx")
			c := s.TP.desiredChild(po, k, fmt.Sprintf("%s-%d", p.Name, idx), s.childNSFor(po, k, idx), idx)
			if s.Cfg.GenerateSelector {
				setPath(c, mstr(po, "uid"), "metadata", "labels", "controller-uid")
			}
			setPath(c, "orphan", childContentField(k), "color")
			w.Store.Create(k, s.childNSFor(po, k, idx), c, "user")
		}})
	}
	return ops
}

// ParentLifecycle offers deletion of parents with each propagation policy.
func (s *Setup) ParentLifecycle(b *EnvBudget) []EnvOp {
	if b.Left <= 0 {
		return nil
	}
	var ops []EnvOp
	for _, p := range s.Parents {
		p := p
		if po := p.Get(s.W); po == nil || metaRO(po)["deletionTimestamp"] != nil {
			continue
		}
		for _, prop := range []string{"Background", "Foreground", "Orphan"} {
			prop := prop
			ops = append(ops, EnvOp{"delete-parent-" + prop + " " + p.Name, func(w *World) {
				b.take()
				w.Cfg["parentDeleted"+prop] = "true"
				w.Store.Delete(p.Res, p.NS, p.Name, DeleteOpts{Propagation: prop}, "user")
			}})
		}
	}
	return ops
}

// GCOps models the garbage collector: it is offered whenever it has work.
func GCOps(w *World) []EnvOp {
	var ops []EnvOp
	s := w.Store
	uids := map[string]Object{}
	for _, k := range s.AllKeys() {
		o := s.objs[k].obj
		uids[mstr(o, "uid")] = o
	}
	for _, k := range s.AllKeys() {
		k := k
		o := s.objs[k].obj
		res := s.resources[k.res]
		refs := ownerRefsOf(o)
		if len(refs) > 0 && metaRO(o)["deletionTimestamp"] == nil {
			gone := 0
			for _, r := range refs {
				if _, ok := uids[r.UID]; !ok {
					gone++
				}
			}
			if gone == len(refs) {
				ops = append(ops, EnvOp{"gc-collect " + k.String(), func(w *World) {
					w.Store.Delete(res, k.ns, k.name, DeleteOpts{Propagation: "Background"}, "gc")
				}})
			}
		}
		if hasFinalizer(o, "foregroundDeletion") {
			uid := mstr(o, "uid")
			var deps []objKey
			for _, dk := range s.AllKeys() {
				for _, r := range ownerRefsOf(s.objs[dk].obj) {
					if r.UID == uid {
						deps = append(deps, dk)
					}
				}
			}
			ops = append(ops, EnvOp{"gc-foreground " + k.String(), func(w *World) {
				if len(deps) > 0 {
					d := deps[0]
					w.Store.Delete(s.resources[d.res], d.ns, d.name, DeleteOpts{Propagation: "Background"}, "gc")
					return
				}
				EditObject(w, res, k.ns, k.name, "gc", func(o Object) { removeFinalizer(o, "foregroundDeletion") })
			}})
		}
		if hasFinalizer(o, "orphan") {
			uid := mstr(o, "uid")
			ops = append(ops, EnvOp{"gc-orphan " + k.String(), func(w *World) {
				for _, dk := range s.AllKeys() {
					d := s.objs[dk].obj
					for _, r := range ownerRefsOf(d) {
						if r.UID == uid {
							EditObject(w, s.resources[dk.res], dk.ns, dk.name, "gc", func(o Object) {
								var keep []interface{}
								for _, x := range getList(o, "metadata", "ownerReferences") {
									if getStr(x, "uid") != uid {
										keep = append(keep, x)
									}
								}
								setPath(o, keep, "metadata", "ownerReferences")
							})
						}
					}
				}
				EditObject(w, res, k.ns, k.name, "gc", func(o Object) { removeFinalizer(o, "orphan") })
			}})
		}
	}
	return ops
}

func removeFinalizer(o Object, f string) {
	var keep []interface{}
	for _, x := range finalizersOf(o) {
		if x != f {
			keep = append(keep, x)
		}
	}
	setPath(o, keep, "metadata", "finalizers")
}

// StatusActor offers "the child's own controller" marking children healthy or
// unhealthy. What healthy looks like is HealthyStatus/"Sim" (status and reason of
// the Ready condition); unhealthy is the opposite status with reason "Bad".
func (s *Setup) StatusActor(healthy bool) []EnvOp {
	w := s.W
	var ops []EnvOp
	hs := s.HealthyStatus
	if hs == "" {
		hs = "True"
	}
	for _, c := range s.allChildren() {
		res := resOf(w, c)
		ns, name := mstr(c, "namespace"), mstr(c, "name")
		gen := getInt(c, "metadata", "generation")
		want, reason := hs, "Sim"
		if !healthy {
			want, reason = "False", "Bad"
			if hs == "False" {
				want = "True"
			}
		}
		cur, curReason := "", ""
		for _, cond := range getList(c, "status", "conditions") {
			if getStr(cond, "type") == "Ready" {
				cur, curReason = getStr(cond, "status"), getStr(cond, "reason")
			}
		}
		curOG := jsonString(getPath(c, "status", "observedGeneration"))
		wantOG := fmt.Sprint(gen)
		switch s.OddObsGen {
		case "string":
			wantOG = fmt.Sprintf("%q", fmt.Sprint(gen))
		case "fraction":
			wantOG = jsonString(float64(gen) + 0.5)
		}
		if cur == want && curReason == reason && curOG == wantOG {
			continue
		}
		ops = append(ops, EnvOp{"status " + res.Kind + "/" + ns + "/" + name + "=" + want + "/" + reason, func(w *World) {
			EditStatus(w, res, ns, name, "status", func(o Object) {
				var og interface{} = getInt(o, "metadata", "generation")
				switch s.OddObsGen {
				case "string":
					og = fmt.Sprint(og)
				case "fraction":
					og = float64(getInt(o, "metadata", "generation")) + 0.5
				}
				o["status"] = Object{"observedGeneration": og,
					"conditions": []interface{}{Object{"type": "Ready", "status": want, "reason": reason}}}
			})
		}})
	}
	return ops
}

// syncParents maps (incarnation, worker goroutine, sync number) to the parent that sync was about.
type syncID struct{ Inc, Root, Sync int }

func (w *World) SyncParents(parentKey string) map[syncID]Object {
	out := map[syncID]Object{}
	for _, h := range w.Hooks {
		if h.Sync < 0 || h.Req == nil {
			continue
		}
		if p := getMap(h.Req, parentKey); p != nil {
			id := syncID{h.Inc, h.Root, h.Sync}
			if _, ok := out[id]; !ok {
				out[id] = p
			}
		}
	}
	return out
}

// DiscoveryOutages offers the start and the end of an outage of one group-version's
// discovery document (the process is started with a short discovery refresh period,
// so its resource map loses and regains the group-version while it runs).
func DiscoveryOutages(w *World, b *EnvBudget, gvs []string) []EnvOp {
	var ops []EnvOp
	for _, gv := range gvs {
		gv := gv
		if w.DiscoveryDown[gv] {
			ops = append(ops, EnvOp{"discovery-back " + gv, func(w *World) { delete(w.DiscoveryDown, gv) }})
		} else if b.Left > 0 {
			ops = append(ops, EnvOp{"discovery-down " + gv, func(w *World) {
				b.take()
				if w.DiscoveryDown == nil {
					w.DiscoveryDown = map[string]bool{}
				}
				w.DiscoveryDown[gv] = true
			}})
		}
	}
	return ops
}
