package sim

import (
	"bytes"
	"fmt"
	"sort"
)

// hookShape describes where a controller kind puts things in its hook requests.
type hookShape struct {
	ParentKey, ChildrenKey string
	Prop                   string
}

var compositeShape = hookShape{"parent", "children", "C03"}
var decoratorShape = hookShape{"object", "attachments", "C03"}

// c03Oracle checks every sync/finalize hook request against the documented shape
// and against what the parent controlled in the cache the sync could read.
//   - declared: the child resources of the controller
//   - owns(parentUID, childVersion) : the ownership rule of the controller kind
func c03Oracle(w *World, sig map[string]string, shape hookShape, declared []*Resource,
	matches func(parent Object, res *Resource, child Object) bool, markerOK func(child Object) bool) *Violation {
	syncs := w.Syncs(shape.ParentKey)
	report := func(v *Violation) *Violation {
		if w.Known(v) {
			return nil
		}
		return v
	}
	for _, sy := range syncs {
		for _, h := range sy.Hooks {
			if (h.Kind != "sync" && h.Kind != "finalize") || h.Req == nil {
				continue
			}
			parent := getMap(h.Req, shape.ParentKey)
			pns, puid := mstr(parent, "namespace"), mstr(parent, "uid")
			children := getMap(h.Req, shape.ChildrenKey)
			where := fmt.Sprintf("%s hook request for %s %s/%s (step %d)", h.Kind, getStr(parent, "kind"), pns, mstr(parent, "name"), h.ParkStep)
			// a rolling update also asks the hook about older parent revisions: such a request
			// carries the revisioned fields (by default all of spec, the child selector
			// included) as recorded then, while the children were claimed with the selector
			// of the parent as it is now
			oldRevision := false
			if pres := resOf(w, parent); pres != nil {
				var prv int64
				fmt.Sscan(mstr(parent, "resourceVersion"), &prv)
				if srv := w.Store.VersionAt(pres, pns, mstr(parent, "name"), prv); srv != nil {
					oldRevision = jsonString(mustParse(srv)["spec"]) != jsonString(parent["spec"])
				}
			}
			// (1) exactly one entry per declared child resource
			want := map[string]*Resource{}
			for _, r := range declared {
				want[r.KindKey()] = r
			}
			var gotKeys []string
			for k := range children {
				gotKeys = append(gotKeys, k)
			}
			sort.Strings(gotKeys)
			for _, k := range gotKeys {
				if want[k] == nil {
					if v := report(&Violation{Prop: shape.Prop, Class: "undeclared-kind-in-children", Sig: sig, Step: h.ParkStep, Detail: where + ": key " + k}); v != nil {
						return v
					}
				}
			}
			for _, k := range sortedKeys(want) {
				if _, ok := children[k]; !ok {
					if v := report(&Violation{Prop: shape.Prop, Class: "declared-kind-missing", Sig: sig, Step: h.ParkStep,
						Detail: fmt.Sprintf("%s: no entry %q (keys %v)", where, k, gotKeys)}); v != nil {
						return v
					}
				}
			}
			adopted := map[string]bool{}
			released := map[string]bool{}
			for _, q := range sy.Reqs {
				if q.Arrival < h.Arrival && q.Verb == "update" && accepted(q) && q.Pre != nil && q.Post != nil {
					// (the cached copy may still be an orphan when an earlier sync adopted it already)
					if c := controllerOf(mustParse(q.Post)); c != nil && c.UID == puid {
						adopted[q.Res.Key()+"|"+q.NS+"|"+q.Name] = true
					} else if pc := controllerOf(mustParse(q.Pre)); pc != nil && pc.UID == puid {
						// given up by this very sync (it no longer matches the selector the sync works with)
						released[q.Res.Key()+"|"+q.NS+"|"+q.Name] = true
					}
				}
			}
			for _, k := range gotKeys {
				res := want[k]
				if res == nil {
					continue
				}
				group, _ := children[k].(map[string]interface{})
				present := map[objKey]bool{}
				for _, ik := range sortedKeys(group) {
					o, _ := group[ik].(map[string]interface{})
					ns, name := mstr(o, "namespace"), mstr(o, "name")
					present[objKey{res.Key(), ns, name}] = true
					id := fmt.Sprintf("%s %s/%s", res.Kind, ns, name)
					// (2) key spelling and scope
					if ik != innerKey(pns, ns, name) {
						if v := report(&Violation{Prop: shape.Prop, Class: "bad-inner-key", Sig: sig, Step: h.ParkStep,
							Detail: fmt.Sprintf("%s: %s is keyed %q, documented key is %q", where, id, ik, innerKey(pns, ns, name))}); v != nil {
							return v
						}
					}
					if pns != "" && res.Namespaced && ns != pns {
						if v := report(&Violation{Prop: shape.Prop, Class: "other-namespace-object", Sig: sig, Step: h.ParkStep,
							Detail: fmt.Sprintf("%s: %s is outside the parent's namespace", where, id)}); v != nil {
							return v
						}
					}
					if getStr(o, "kind") != res.Kind || getStr(o, "apiVersion") != res.APIVersion() {
						if v := report(&Violation{Prop: shape.Prop, Class: "wrong-kind-under-key", Sig: sig, Step: h.ParkStep,
							Detail: fmt.Sprintf("%s: %s listed under %s", where, id, k)}); v != nil {
							return v
						}
					}
					// (3) what the hook is shown is what the API server delivered
					rv := int64(0)
					fmt.Sscan(mstr(o, "resourceVersion"), &rv)
					srv := w.Store.VersionAt(res, ns, name, rv)
					if srv == nil || !bytes.Equal(srv, canon(o)) {
						if v := report(&Violation{Prop: shape.Prop, Class: "object-differs-from-server-version", Sig: sig, Step: h.ParkStep,
							Detail: fmt.Sprintf("%s: %s at resourceVersion %d is %s, the server stored %s", where, id, rv, jsonString(o), srv)}); v != nil {
							return v
						}
						continue
					}
					// (4) only what the parent controls (and, composite, matches)
					c := controllerOf(o)
					owned := c != nil && c.UID == puid
					if !owned && !adopted[res.Key()+"|"+ns+"|"+name] {
						if v := report(&Violation{Prop: shape.Prop, Class: "uncontrolled-object-shown", Sig: sig, Step: h.ParkStep,
							Detail: fmt.Sprintf("%s: %s is not controlled by the parent (owners %s)", where, id, jsonString(metaRO(o)["ownerReferences"]))}); v != nil {
							return v
						}
					}
					if matches != nil && !oldRevision && !matches(parent, res, o) {
						if v := report(&Violation{Prop: shape.Prop, Class: "non-matching-object-shown", Sig: sig, Step: h.ParkStep,
							Detail: fmt.Sprintf("%s: %s (labels %v) does not match the parent's selector", where, id, labelsOf(o))}); v != nil {
							return v
						}
					}
					if markerOK != nil && !markerOK(o) {
						if v := report(&Violation{Prop: shape.Prop, Class: "unmarked-attachment-shown", Sig: sig, Step: h.ParkStep,
							Detail: fmt.Sprintf("%s: %s lacks this decorator's marker (annotations %v)", where, id, annotationsOf(o))}); v != nil {
							return v
						}
					}
				}
				// (5) completeness: an object the parent controlled (and that matched) in
				// every cache version the sync could have read must be shown
				first := w.Cache.View(h.Inc, res, sy.StartStep-1)
				for _, ck := range viewKeys(first) {
					if present[ck] || oldRevision || released[res.Key()+"|"+ck.ns+"|"+ck.name] {
						continue
					}
					if pns != "" && res.Namespaced && ck.ns != pns {
						continue
					}
					stable := true
					for _, ver := range w.Cache.Versions(h.Inc, res, ck.ns, ck.name, sy.StartStep-1, h.ParkStep) {
						if ver == nil {
							stable = false
							break
						}
						co := mustParse(ver)
						c := controllerOf(co)
						if c == nil || c.UID != puid || (matches != nil && !matches(parent, res, co)) || (markerOK != nil && !markerOK(co)) {
							stable = false
							break
						}
					}
					if stable {
						if v := report(&Violation{Prop: shape.Prop, Class: "controlled-object-not-shown", Sig: sig, Step: h.ParkStep,
							Detail: fmt.Sprintf("%s: %s %s/%s was controlled by the parent in every cache version of this sync but is missing from %s", where, res.Kind, ck.ns, ck.name, k)}); v != nil {
							return v
						}
					}
				}
				// (5b) a cache that has not been filled yet is no view at all: if the hook is
				// asked before the informer of this kind delivered its first list, what the
				// store held all through the sync is what was missed
				if !w.Cache.Synced(h.Inc, res, h.ParkStep) && !oldRevision {
					for _, co := range storeStable(w, res, sy.StartStep-1, h.ParkStep) {
						c := controllerOf(co)
						if c == nil || c.UID != puid || (matches != nil && !matches(parent, res, co)) || (markerOK != nil && !markerOK(co)) {
							continue
						}
						if pns != "" && res.Namespaced && mstr(co, "namespace") != pns {
							continue
						}
						s2 := copySig(sig)
						s2["cache"] = "not-synced"
						if v := report(&Violation{Prop: shape.Prop, Class: "controlled-object-not-shown", Sig: s2, Step: h.ParkStep,
							Detail: fmt.Sprintf("%s: the hook was asked before the %s informer had delivered its first list; %s %s/%s, controlled by the parent all through this sync, is missing from %s", where, res.Kind, res.Kind, mstr(co, "namespace"), mstr(co, "name"), k)}); v != nil {
							return v
						}
					}
					w.Probe("c03:hook-asked-before-child-cache-synced")
				}
			}
			// (6) children created on the strength of this answer are the desired ones,
			// placed in the parent's namespace when the answer gave none
			if h.Code == 200 {
				desired, _, err := desiredFromResponse(w, h.RespBody, shape.ChildrenKey, pns)
				if err != nil {
					continue
				}
				last := true
				for _, h2 := range sy.Hooks {
					if h2.Arrival > h.Arrival && (h2.Kind == "sync" || h2.Kind == "finalize") {
						last = false
					}
				}
				if !last || len(sy.Hooks) > 1 && sy.Hooks[0] != h {
					continue // rolling updates mix several answers; creations are judged for single-answer syncs
				}
				for _, q := range sy.Reqs {
					// a namespaced parent's children are created in its namespace: judged on the
					// request as sent, whatever the server makes of it
					if q.Arrival > h.Arrival && q.Verb == "create" && q.Res != nil && q.Res.Namespaced && pns != "" && q.NS != pns && q.Fault != "cancelled" {
						for _, r := range declared {
							if r == q.Res {
								if v := report(&Violation{Prop: shape.Prop, Class: "create-sent-outside-parent-namespace", Sig: sig, Step: q.Step,
									Detail: fmt.Sprintf("%s: %s sent for a child of a parent in namespace %q", where, q.Short(), pns)}); v != nil {
									return v
								}
							}
						}
					}
					if q.Arrival > h.Arrival && q.Pre == nil && q.Post != nil && accepted(q) && q.Res != nil {
						isDeclared := false
						for _, r := range declared {
							if r == q.Res {
								isDeclared = true
							}
						}
						if !isDeclared {
							continue
						}
						po := mustParse(q.Post)
						id := childID{q.Res, mstr(po, "namespace"), mstr(po, "name")}
						if _, ok := desired[id]; !ok {
							if v := report(&Violation{Prop: shape.Prop, Class: "created-child-not-desired-here", Sig: sig, Step: q.Step,
								Detail: fmt.Sprintf("%s created, but the hook answer of that sync desires %v", id, desiredIDs(desired))}); v != nil {
								return v
							}
						}
					}
				}
			}
		}
	}
	return nil
}

func desiredIDs(m map[childID]Object) []string {
	var out []string
	for id := range m {
		out = append(out, id.String())
	}
	sort.Strings(out)
	return out
}

// C03Scenario: the hook sees exactly the children the parent owns, in the documented shape.
func C03Scenario() *Scenario {
	return &Scenario{Prop: "C03", Init: func(w *World) {
		t := w.T
		s := NewCompositeSetup(w, GenOpts{PlainOwner: true, SameNames: true, AllowCluster: true, AllowSSA: false, MaxWorkers: 2, MaxParents: 2, LookAlikes: true, AvoidKnown: true, ExpressionSel: true,
			Kinds: []*Resource{ResWidget, ResConfigMap, ResGadget}})
		// objects of an undeclared kind, owned by the parent
		for _, p := range s.Parents {
			po := p.Get(w)
			ns := p.NS
			if ns == "" {
				ns = "ns1"
			}
			if s.Cfg.Rule(ResSecret) == nil {
				w.Store.Create(ResSecret, ns, Object{"metadata": Object{"name": p.Name + "-undeclared", "labels": getMap(po, "spec", "selector", "matchLabels"),
					"ownerReferences": []interface{}{ownerRefObj(po, true)}}, "data": Object{"k": "v"}}, "user")
			}
		}
		b := &EnvBudget{Left: 3 + t.Pick(8, "envbudget")}
		w.EnvOps = func(w *World) []EnvOp {
			var ops []EnvOp
			ops = append(ops, s.ChildChaos(b)...)
			ops = append(ops, s.OrphanOps(b)...)
			ops = append(ops, s.ParentEdits(b)...)
			ops = append(ops, s.ParentLifecycle(b)...)
			ops = append(ops, s.Reselect(b)...)
			ops = append(ops, GCOps(w)...)
			return ops
		}
		pol := lagPolicy(t)
		pol.EnvProb = 100
		w.Cfg["policy"] = pol.Name
		matches := func(parent Object, res *Resource, child Object) bool {
			sel, ok := parentSelector(s.Cfg, parent, false)
			return ok && selectorMatches(sel, labelsOf(child))
		}
		w.Stages = []Stage{
			{Name: "chaos", Policy: pol, Steps: 150 + 100*t.Pick(3, "len")},
			{Name: "drain", Quiet: true, CheckOnBudget: true, MaxSteps: 3000, Do: func(w *World) { b.Left = 0 }, Check: func(w *World) *Violation {
				return c03Oracle(w, s.Sig, compositeShape, s.ChildKinds(), matches, nil)
			}},
		}
	}}
}
