//go:build !nomemo

package sim

import (
	"sync"
	"unsafe"
)

// The server-side-apply skip memo of metacontroller is process-global state
// that a real restart loses. It is cleared between runs and at every simulated
// restart. Access is by go:linkname (no edit in /repo); the runner falls back
// to the `nomemo` build tag if this file stops linking against a refactored tree.

//go:linkname mcLastUpdatedCache metacontroller/pkg/controller/common.lastUpdatedCache
var mcLastUpdatedCache map[string]unsafe.Pointer

//go:linkname mcCacheLock metacontroller/pkg/controller/common.cacheLock
var mcCacheLock *sync.RWMutex

const MemoResetAvailable = true

func resetProcessMemo() {
	mcCacheLock.Lock()
	clear(mcLastUpdatedCache)
	mcCacheLock.Unlock()
}
