package sim

import (
	"fmt"
	"sort"
	"time"
)

// CustomizeFromSpec is the customize hook program: the rules are whatever the
// parent carries in spec.related (a pure function of the parent).
func CustomizeFromSpec(parentKey string) func(req Object) Object {
	return func(req Object) Object {
		rules := getList(req, parentKey, "spec", "related")
		if rules == nil {
			rules = []interface{}{}
		}
		return Object{"relatedResources": rules}
	}
}

type relRule struct {
	res       *Resource
	selector  Object // nil = not given
	namespace string
	names     []string
	raw       Object
}

func parseRules(w *World, parent Object) []relRule {
	var out []relRule
	for _, r := range getList(parent, "spec", "related") {
		rm, _ := r.(map[string]interface{})
		av := getStr(rm, "apiVersion")
		g := ""
		for i := 0; i < len(av); i++ {
			if av[i] == '/' {
				g = av[:i]
			}
		}
		rr := relRule{res: w.Store.Resource(g, getStr(rm, "resource")), namespace: getStr(rm, "namespace"), names: strList(rm["names"]), raw: rm}
		if s, ok := rm["labelSelector"].(map[string]interface{}); ok {
			rr.selector = s
		}
		out = append(out, rr)
	}
	return out
}

func (r relRule) invalid(parentNamespaced bool, parentNS string) bool {
	if r.selector != nil && (r.namespace != "" || len(r.names) > 0) {
		return true
	}
	if parentNamespaced && r.namespace != "" && r.namespace != parentNS {
		return true
	}
	return false
}

// selects: does the rule select object o for this parent (documented semantics)?
func (r relRule) selects(parentNamespaced bool, parentNS string, o Object) bool {
	ns := mstr(o, "namespace")
	if parentNamespaced && ns != parentNS {
		return false
	}
	if r.namespace != "" || len(r.names) > 0 {
		if r.namespace != "" && ns != r.namespace {
			return false
		}
		if len(r.names) > 0 {
			found := false
			for _, n := range r.names {
				if n == mstr(o, "name") {
					found = true
				}
			}
			return found
		}
		return true
	}
	if r.selector == nil {
		return true
	}
	return selectorMatches(r.selector, labelsOf(o))
}

// drawRelatedRules draws a rule set (valid and invalid shapes).
func drawRelatedRules(t *Tape, parentNS string, step int) []interface{} {
	kinds := []*Resource{ResConfigMap, ResSecret, ResClusterWidget}
	n := t.Pick(3, "nrules")
	var rules []interface{}
	for i := 0; i <= n; i++ {
		k := kinds[t.Pick(len(kinds), "relkind")]
		r := Object{"apiVersion": k.APIVersion(), "resource": k.Plural}
		shapes := 10
		if step < 0 {
			shapes = 7 // valid rules only
		}
		switch t.Pick(shapes, "ruleshape") {
		case 0:
			r["labelSelector"] = Object{"matchLabels": Object{"rel": "a"}}
		case 1:
			r["labelSelector"] = Object{"matchExpressions": []interface{}{Object{"key": "rel", "operator": "In", "values": []interface{}{"a", "b"}}}}
		case 2:
			r["labelSelector"] = Object{} // empty selector: everything
		case 3: // nothing at all: everything
		case 4:
			r["names"] = []interface{}{"r0", "r2"}
		case 5:
			if parentNS != "" {
				r["namespace"] = parentNS
			} else {
				r["namespace"] = "ns2"
			}
		case 6:
			ns := parentNS
			if ns == "" {
				ns = "ns1"
			}
			r["namespace"] = ns
			r["names"] = []interface{}{"r1"}
		case 7: // invalid: both styles
			r["labelSelector"] = Object{"matchLabels": Object{"rel": "a"}}
			r["names"] = []interface{}{"r0"}
		case 8: // a foreign namespace (invalid for a namespaced parent)
			r["namespace"] = "ns3"
		case 9: // invalid: both styles, the selector being the empty one
			r["labelSelector"] = Object{}
			r["names"] = []interface{}{"r1"}
		}
		rules = append(rules, r)
	}
	return rules
}

// populateRelated creates related objects across namespaces and scopes.
func populateRelated(w *World) {
	for _, ns := range Namespaces {
		for i := 0; i < 3; i++ {
			lbl := Object{"rel": []string{"a", "b", "c"}[i]}
			w.Store.Create(ResConfigMap, ns, Object{"metadata": Object{"name": fmt.Sprintf("r%d", i), "labels": lbl}, "data": Object{"v": "0"}}, "user")
			if i < 2 {
				w.Store.Create(ResSecret, ns, Object{"metadata": Object{"name": fmt.Sprintf("r%d", i), "labels": lbl}, "data": Object{"v": "0"}}, "user")
			}
		}
	}
	for i := 0; i < 3; i++ {
		w.Store.Create(ResClusterWidget, "", Object{"metadata": Object{"name": fmt.Sprintf("r%d", i), "labels": Object{"rel": []string{"a", "b", "c"}[i]}}, "spec": Object{"v": "0"}}, "user")
	}
}

// RelatedOps offers changes to related objects.
func RelatedOps(w *World, b *EnvBudget) []EnvOp {
	if b.Left <= 0 {
		return nil
	}
	var ops []EnvOp
	for _, res := range []*Resource{ResConfigMap, ResSecret, ResClusterWidget} {
		res := res
		for _, o := range w.Store.List(res, "") {
			ns, name := mstr(o, "namespace"), mstr(o, "name")
			if len(name) < 2 || name[0] != 'r' || len(ownerRefsOf(o)) > 0 {
				continue
			}
			id := res.Kind + "/" + ns + "/" + name
			ops = append(ops,
				EnvOp{"rel-edit " + id, func(w *World) {
					b.take()
					EditObject(w, res, ns, name, "user", func(o Object) { setPath(o, fmt.Sprint(w.step), childContentField(res), "v") })
				}},
				EnvOp{"rel-relabel " + id, func(w *World) {
					b.take()
					v := []string{"a", "b", "c"}[w.T.Pick(3, "rellabel")]
					EditObject(w, res, ns, name, "user", func(o Object) { setPath(o, v, "metadata", "labels", "rel") })
				}},
				EnvOp{"rel-delete " + id, func(w *World) { b.take(); w.Store.Delete(res, ns, name, DeleteOpts{}, "user") }},
			)
		}
		ns := ""
		if res.Namespaced {
			ns = Namespaces[w.T.Pick(3, "relns")]
		}
		ops = append(ops, EnvOp{"rel-create " + res.Kind, func(w *World) {
			b.take()
			name := fmt.Sprintf("r%d", w.T.Pick(4, "relname"))
			w.Store.Create(res, ns, Object{"metadata": Object{"name": name, "labels": Object{"rel": "a"}}, childContentField(res): Object{"v": "new"}}, "user")
		}})
	}
	return ops
}

// c15Oracle checks the related map of every sync/finalize request and the customize call discipline.
func c15Oracle(w *World, s *Setup) *Violation {
	report := func(v *Violation) *Violation {
		if w.Known(v) {
			return nil
		}
		return v
	}
	pres := s.Cfg.Parent
	// customize calls: at most one per (uid, generation) while the answer is cached (20 min)
	type ck struct {
		uid string
		gen int64
		inc int
	}
	lastAnswered := map[ck]time.Duration{}
	inflight := map[ck]int{}
	type ev struct {
		arrival int
		start   bool
		h       *HookRec
	}
	var calls []*HookRec
	for _, h := range w.Hooks {
		if h.Kind == "customize" && h.Req != nil {
			calls = append(calls, h)
		}
	}
	sort.Slice(calls, func(i, j int) bool { return calls[i].Arrival < calls[j].Arrival })
	for _, h := range calls {
		p := getMap(h.Req, "parent")
		k := ck{mstr(p, "uid"), getInt(p, "metadata", "generation"), h.Inc}
		if t0, ok := lastAnswered[k]; ok && h.ParkTime-t0 < 20*time.Minute {
			// a duplicate is only legitimate while the first call was still in flight
			concurrent := false
			for _, o := range calls {
				if o != h && o.Inc == h.Inc && o.Arrival < h.Arrival && o.Step >= h.ParkStep {
					op := getMap(o.Req, "parent")
					if mstr(op, "uid") == k.uid && getInt(op, "metadata", "generation") == k.gen {
						concurrent = true
					}
				}
			}
			if !concurrent {
				if v := report(&Violation{Prop: "C15", Class: "customize-asked-again-while-cached", Sig: s.Sig, Step: h.ParkStep,
					Detail: fmt.Sprintf("customize hook called again for uid %s generation %d only %v after its answer was cached", k.uid, k.gen, h.ParkTime-t0)}); v != nil {
					return v
				}
			}
		}
		if h.Code == 200 && h.Fault == "" {
			lastAnswered[k] = h.ParkTime
		}
		_ = inflight
	}
	for _, sy := range w.Syncs("parent") {
		for _, h := range sy.Hooks {
			if (h.Kind != "sync" && h.Kind != "finalize") || h.Req == nil {
				continue
			}
			parent := getMap(h.Req, "parent")
			pns := mstr(parent, "namespace")
			rules := parseRules(w, parent)
			where := fmt.Sprintf("%s hook request for %s %s/%s (step %d)", h.Kind, pres.Kind, pns, mstr(parent, "name"), h.ParkStep)
			anyInvalid := false
			for _, r := range rules {
				if r.res == nil || r.invalid(pres.Namespaced, pns) {
					anyInvalid = true
				}
			}
			if anyInvalid {
				if v := report(&Violation{Prop: "C15", Class: "hook-called-despite-invalid-rules", Sig: s.Sig, Step: h.ParkStep,
					Detail: fmt.Sprintf("%s: the customize rules %s contain an invalid rule (both selection styles, or a foreign namespace for a namespaced parent); this must be an error, not a sync", where, jsonString(getPath(parent, "spec", "related")))}); v != nil {
					return v
				}
				continue
			}
			related := getMap(h.Req, "related")
			// one key per rule resource
			want := map[string]*Resource{}
			for _, r := range rules {
				want[r.res.KindKey()] = r.res
			}
			for k := range related {
				if want[k] == nil {
					if v := report(&Violation{Prop: "C15", Class: "unrequested-kind-in-related", Sig: s.Sig, Step: h.ParkStep, Detail: where + ": key " + k}); v != nil {
						return v
					}
				}
			}
			for _, k := range sortedKeys(want) {
				res := want[k]
				group := getMap(related, k)
				present := map[objKey]bool{}
				for _, ik := range sortedKeys(group) {
					o, _ := group[ik].(map[string]interface{})
					ns, name := mstr(o, "namespace"), mstr(o, "name")
					present[objKey{res.Key(), ns, name}] = true
					if ik != innerKey(pns, ns, name) {
						if v := report(&Violation{Prop: "C15", Class: "bad-inner-key", Sig: s.Sig, Step: h.ParkStep,
							Detail: fmt.Sprintf("%s: related %s %s/%s keyed %q, documented key %q", where, res.Kind, ns, name, ik, innerKey(pns, ns, name))}); v != nil {
							return v
						}
					}
					rv := int64(0)
					fmt.Sscan(mstr(o, "resourceVersion"), &rv)
					if srv := w.Store.VersionAt(res, ns, name, rv); srv == nil || string(srv) != string(canon(o)) {
						if v := report(&Violation{Prop: "C15", Class: "related-object-differs-from-server-version", Sig: s.Sig, Step: h.ParkStep,
							Detail: fmt.Sprintf("%s: related %s %s/%s at resourceVersion %d differs from what the server stored", where, res.Kind, ns, name, rv)}); v != nil {
							return v
						}
						continue
					}
					sel := false
					for _, r := range rules {
						if r.res == res && r.selects(pres.Namespaced, pns, o) {
							sel = true
						}
					}
					if !sel {
						if v := report(&Violation{Prop: "C15", Class: "unselected-object-in-related", Sig: s.Sig, Step: h.ParkStep,
							Detail: fmt.Sprintf("%s: related contains %s %s/%s (labels %v), which no rule of %s selects for this parent", where, res.Kind, ns, name, labelsOf(o), jsonString(getPath(parent, "spec", "related")))}); v != nil {
							return v
						}
					}
				}
				// completeness: selected in every cache version the sync could have read => shown
				first := w.Cache.View(h.Inc, res, sy.StartStep-1)
				for _, ckey := range viewKeys(first) {
					if present[ckey] {
						continue
					}
					stable := true
					for _, ver := range w.Cache.Versions(h.Inc, res, ckey.ns, ckey.name, sy.StartStep-1, h.ParkStep) {
						if ver == nil {
							stable = false
							break
						}
						o := mustParse(ver)
						sel := false
						for _, r := range rules {
							if r.res == res && r.selects(pres.Namespaced, pns, o) {
								sel = true
							}
						}
						if !sel {
							stable = false
							break
						}
					}
					if stable {
						if v := report(&Violation{Prop: "C15", Class: "selected-object-missing-from-related", Sig: s.Sig, Step: h.ParkStep,
							Detail: fmt.Sprintf("%s: %s %s/%s was selected by the rules %s in every cache version of this sync but is missing from related", where, res.Kind, ckey.ns, ckey.name, jsonString(getPath(parent, "spec", "related")))}); v != nil {
							return v
						}
					}
				}
				// a cache that has not been filled yet is no view at all: if the hook is asked
				// before the informer of a related kind delivered its first list, what the
				// store held all through the sync is what was missed
				if !w.Cache.Synced(h.Inc, res, h.ParkStep) {
					for _, o := range storeStable(w, res, sy.StartStep-1, h.ParkStep) {
						sel := false
						for _, r := range rules {
							if r.res == res && r.selects(pres.Namespaced, pns, o) {
								sel = true
							}
						}
						if !sel || present[objKey{res.Key(), mstr(o, "namespace"), mstr(o, "name")}] {
							continue
						}
						s2 := copySig(s.Sig)
						s2["cache"] = "not-synced"
						if v := report(&Violation{Prop: "C15", Class: "selected-object-missing-from-related", Sig: s2, Step: h.ParkStep,
							Detail: fmt.Sprintf("%s: the hook was asked before the %s informer had delivered its first list; %s %s/%s, selected by the rules %s all through this sync, is missing from related", where, res.Kind, res.Kind, mstr(o, "namespace"), mstr(o, "name"), jsonString(getPath(parent, "spec", "related")))}); v != nil {
							return v
						}
					}
					w.Probe("c15:hook-asked-before-related-cache-synced")
				}
			}
		}
		// invalid rules => an error is reported (when the sync got as far as asking the customize hook)
		for _, h := range sy.Hooks {
			if h.Kind != "customize" || h.Code != 200 || h.Req == nil {
				continue
			}
			parent := getMap(h.Req, "parent")
			invalid := false
			for _, r := range parseRules(w, parent) {
				if r.res == nil || r.invalid(pres.Namespaced, mstr(parent, "namespace")) {
					invalid = true
				}
			}
			if invalid && sy.EndStep != 0 && len(sy.Errs) == 0 {
				if v := report(&Violation{Prop: "C15", Class: "invalid-rules-not-reported", Sig: s.Sig, Step: sy.EndStep,
					Detail: fmt.Sprintf("sync started at step %d: the customize answer %s contains an invalid rule but the sync ended without an error", sy.StartStep, jsonString(getPath(parent, "spec", "related")))}); v != nil {
					return v
				}
			}
		}
	}
	return nil
}

// newCustomizeSetup: a composite controller with a customize hook and related objects.
func newCustomizeSetup(w *World) (*Setup, *EnvBudget) {
	t := w.T
	s := NewCompositeSetup(w, GenOpts{AllowCluster: true, MaxWorkers: 2, MaxParents: 2, Methods: []string{"InPlace", "", "Recreate"}, Finalize: 0, Resync: true})
	s.Cfg.Customize = true
	EditObject(w, ResCompositeCtl, "", s.Cfg.Name, "setup", func(o Object) { o["spec"] = s.Cfg.Object()["spec"] })
	s.TP.Related = t.Pick(2, "relchildren") == 1
	s.Progs["cc"].Customize = CustomizeFromSpec("parent")
	populateRelated(w)
	for _, p := range s.Parents {
		rules := drawRelatedRules(t, p.NS, 0)
		EditObject(w, p.Res, p.NS, p.Name, "setup", func(o Object) { setPath(o, rules, "spec", "related") })
	}
	w.InlineUnsyncedHooks = true
	s.Sig["customize"] = "true"
	b := &EnvBudget{Left: 4 + t.Pick(8, "envbudget")}
	return s, b
}

// C15Scenario: related objects — the hook gets exactly what its customize rules select.
func C15Scenario() *Scenario {
	return &Scenario{Prop: "C15", Init: func(w *World) {
		t := w.T
		if t.Pick(4, "family") == 3 {
			// the waking clause: one related object changes at a time, at rest (the round
			// structure of C14, related events only, also after the cached answer expired)
			c14Composite(w, "C15", true)
			w.Cfg["family"] = "related-object-wakes-parent"
			return
		}
		s, b := newCustomizeSetup(w)
		w.EnvOps = func(w *World) []EnvOp {
			ops := RelatedOps(w, b)
			ops = append(ops, s.ParentEdits(b)...)
			for _, p := range s.Parents {
				p := p
				if b.Left > 0 && p.Get(w) != nil {
					ops = append(ops, EnvOp{"new-rules " + p.Name, func(w *World) {
						b.take()
						rules := drawRelatedRules(w.T, p.NS, w.step)
						EditObject(w, p.Res, p.NS, p.Name, "user", func(o Object) { setPath(o, rules, "spec", "related") })
					}})
				}
			}
			return ops
		}
		pol := lagPolicy(t)
		pol.EnvProb = 120
		pol.HookFault = 50 * t.Pick(3, "hookfaults")
		pol.HookFaults = []string{"500", "refused", "garbage", "stall"}
		// the first lists of the related informers (made when a sync first needs them) fail
		// for a while: the worker has to wait for them, however long the reflector backs off
		listFailures := []int{0, 0, 3, 6}[t.Pick(4, "listfailures")]
		if listFailures > 0 {
			pol.APIFault = 700
			pol.APIFaults = []string{"500", "neterr"}
			pol.FaultFilter = func(r *ReqRec) bool {
				if listFailures > 0 && r.Verb == "list" && r.Res != nil && (r.Res == ResConfigMap || r.Res == ResSecret) {
					listFailures--
					w.Probe("c15:related-list-failed")
					return true
				}
				return false
			}
		}
		w.Cfg["policy"] = fmt.Sprintf("%s hookfault=%d listfailures=%d", pol.Name, pol.HookFault, listFailures)
		longWait := t.Pick(3, "ttl") == 2
		// (a parent with an invalid rule set fails every sync by design, so these stages
		// run for a number of steps instead of waiting for quietness)
		stages := []Stage{{Name: "chaos", Policy: pol, Steps: 150 + 100*t.Pick(3, "len")}}
		if longWait {
			// let the 20-minute customize cache expire, then poke the parents
			stages = append(stages, Stage{Name: "expire", Steps: 60, Do: func(w *World) {
				b.Left = 0
				for waited := time.Duration(0); waited < 25*time.Minute; waited += 30 * time.Second {
					w.Sleep(30 * time.Second)
					for i := 0; i < 50 && !w.Idle(); i++ {
						w.StepOnce(FairPolicy)
					}
				}
			}},
				Stage{Name: "after-expiry", Steps: 150, Do: func(w *World) {
					for _, p := range s.Parents {
						EditObject(w, p.Res, p.NS, p.Name, "user", func(o Object) { setPath(o, "1", "metadata", "annotations", "poke") })
					}
				}})
		}
		stages = append(stages, Stage{Name: "drain", Steps: 250, Do: func(w *World) { b.Left = 0 },
			Check: func(w *World) *Violation { return c15Oracle(w, s) }})
		w.Stages = stages
	}}
}
