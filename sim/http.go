package sim

import (
	"bytes"
	"encoding/json"
	"fmt"
	"io"
	"net/http"
	"net/url"
	"sort"
	"strconv"
	"strings"
	"sync"
)

// parsedPath is the routing result of one API request path.
type parsedPath struct {
	Discovery string // "api", "apis", "gv" or ""
	Group     string
	Version   string
	Res       *Resource
	NS        string
	Name      string
	Sub       string
}

func (s *Store) route(path string) (*parsedPath, *StatusErr) {
	segs := strings.Split(strings.Trim(path, "/"), "/")
	notFound := &StatusErr{Code: 404, Reason: "NotFound", Message: "the server could not find the requested resource"}
	if len(segs) == 0 || segs[0] == "" {
		return nil, notFound
	}
	p := &parsedPath{}
	var rest []string
	switch segs[0] {
	case "api":
		if len(segs) == 1 {
			p.Discovery = "api"
			return p, nil
		}
		p.Group, p.Version = "", segs[1]
		rest = segs[2:]
	case "apis":
		if len(segs) == 1 {
			p.Discovery = "apis"
			return p, nil
		}
		if len(segs) == 2 {
			return nil, notFound
		}
		p.Group, p.Version = segs[1], segs[2]
		rest = segs[3:]
	default:
		return nil, notFound
	}
	if len(rest) == 0 {
		p.Discovery = "gv"
		return p, nil
	}
	if rest[0] == "namespaces" && len(rest) >= 3 && !(len(rest) == 3 && (rest[2] == "status" || rest[2] == "finalize")) {
		p.NS = rest[1]
		rest = rest[2:]
	}
	res := s.resources[p.Group+"/"+rest[0]]
	if res == nil || res.Version != p.Version {
		return nil, notFound
	}
	p.Res = res
	if p.NS != "" && !res.Namespaced {
		return nil, notFound
	}
	if len(rest) >= 2 {
		p.Name = rest[1]
	}
	if len(rest) >= 3 {
		p.Sub = rest[2]
	}
	if len(rest) > 3 {
		return nil, notFound
	}
	if p.Name != "" && res.Namespaced && p.NS == "" {
		return nil, notFound
	}
	return p, nil
}

func statusBody(e *StatusErr) []byte {
	o := Object{
		"kind": "Status", "apiVersion": "v1", "metadata": Object{},
		"status": "Failure", "message": e.Message, "reason": e.Reason, "code": e.Code,
	}
	if e.Retry > 0 {
		o["details"] = Object{"retryAfterSeconds": e.Retry}
	}
	return canon(o)
}

func httpResp(req *http.Request, code int, body []byte, hdr map[string]string) *http.Response {
	h := http.Header{}
	h.Set("Content-Type", "application/json")
	for k, v := range hdr {
		h.Set(k, v)
	}
	return &http.Response{
		StatusCode: code, Status: fmt.Sprintf("%d %s", code, http.StatusText(code)),
		Proto: "HTTP/1.1", ProtoMajor: 1, ProtoMinor: 1,
		Header: h, Body: io.NopCloser(bytes.NewReader(body)), ContentLength: int64(len(body)), Request: req,
	}
}

func (s *Store) discoveryDoc(p *parsedPath) ([]byte, *StatusErr) {
	switch p.Discovery {
	case "api":
		return canon(Object{"kind": "APIVersions", "versions": []interface{}{"v1"},
			"serverAddressByClientCIDRs": []interface{}{}}), nil
	case "apis":
		byGroup := map[string][]string{}
		var groups []string
		for _, r := range s.resList {
			if r.Group == "" {
				continue
			}
			found := false
			for _, v := range byGroup[r.Group] {
				if v == r.Version {
					found = true
				}
			}
			if !found {
				if len(byGroup[r.Group]) == 0 {
					groups = append(groups, r.Group)
				}
				byGroup[r.Group] = append(byGroup[r.Group], r.Version)
			}
		}
		sort.Strings(groups)
		var gl []interface{}
		for _, g := range groups {
			var vs []interface{}
			for _, v := range byGroup[g] {
				vs = append(vs, Object{"groupVersion": g + "/" + v, "version": v})
			}
			gl = append(gl, Object{"name": g, "versions": vs, "preferredVersion": vs[0]})
		}
		return canon(Object{"kind": "APIGroupList", "apiVersion": "v1", "groups": gl}), nil
	case "gv":
		var rl []interface{}
		gv := p.Version
		if p.Group != "" {
			gv = p.Group + "/" + p.Version
		}
		for _, r := range s.resList {
			if r.Group != p.Group || r.Version != p.Version {
				continue
			}
			verbs := []interface{}{"create", "delete", "deletecollection", "get", "list", "patch", "update", "watch"}
			rl = append(rl, Object{"name": r.Plural, "singularName": strings.ToLower(r.Kind), "namespaced": r.Namespaced, "kind": r.Kind, "verbs": verbs})
			if r.Status {
				rl = append(rl, Object{"name": r.Plural + "/status", "singularName": "", "namespaced": r.Namespaced, "kind": r.Kind, "verbs": []interface{}{"get", "patch", "update"}})
			}
			if r.Scale {
				// a second subresource, as a CRD with subresources.scale has (listed only; nobody uses it)
				rl = append(rl, Object{"name": r.Plural + "/scale", "singularName": "", "namespaced": r.Namespaced, "kind": "Scale", "group": "autoscaling", "version": "v1", "verbs": []interface{}{"get", "patch", "update"}})
			}
		}
		if len(rl) == 0 {
			return nil, &StatusErr{Code: 404, Reason: "NotFound", Message: "the server could not find the requested resource"}
		}
		return canon(Object{"kind": "APIResourceList", "apiVersion": "v1", "groupVersion": gv, "resources": rl}), nil
	}
	return nil, errBadRequest("bad discovery path")
}

// watchBody is the response body of a WATCH: frames are pushed by the kernel.
type watchBody struct {
	ch     chan []byte
	done   chan struct{}
	once   sync.Once
	buf    []byte
	mu     sync.Mutex
	closed bool // closed by the client
}

func newWatchBody() *watchBody {
	return &watchBody{ch: make(chan []byte, 4096), done: make(chan struct{})}
}

func (w *watchBody) Read(p []byte) (int, error) {
	if len(w.buf) == 0 {
		select {
		case b, ok := <-w.ch:
			if !ok {
				return 0, io.EOF
			}
			w.buf = b
		case <-w.done:
			return 0, io.EOF
		}
	}
	n := copy(p, w.buf)
	w.buf = w.buf[n:]
	return n, nil
}

func (w *watchBody) Close() error {
	w.once.Do(func() {
		w.mu.Lock()
		w.closed = true
		w.mu.Unlock()
		close(w.done)
	})
	return nil
}

func (w *watchBody) isClosed() bool {
	w.mu.Lock()
	defer w.mu.Unlock()
	return w.closed
}

// WatchStream is one open WATCH as the server sees it.
type WatchStream struct {
	ID        int
	Res       *Resource
	NS        string
	cursor    int // index into Store.History of the next entry to look at
	body      *watchBody
	ended     bool  // server closed it (fault) or client closed it and kernel noticed
	Delivered int64 // RV of the last frame written
	OpenStep  int
	Inc       int
}

func (ws *WatchStream) matches(ev *Event) bool {
	return ev.Res == ws.Res && (ws.NS == "" || ev.NS == ws.NS)
}

func watchFrame(typ string, raw []byte) []byte {
	var b bytes.Buffer
	b.WriteString(`{"type":"`)
	b.WriteString(typ)
	b.WriteString(`","object":`)
	b.Write(raw)
	b.WriteString("}\n")
	return b.Bytes()
}

// listBody renders a LIST response.
func listBody(r *Resource, items []Object, rv int64) []byte {
	l := make([]interface{}, len(items))
	for i, it := range items {
		l[i] = it
	}
	return canon(Object{
		"kind": r.Kind + "List", "apiVersion": r.APIVersion(),
		"metadata": Object{"resourceVersion": strconv.FormatInt(rv, 10)},
		"items":    l,
	})
}

// sigOf is the canonical signature of a request: it identifies the request by
// content, never by arrival order or goroutine.
func sigOf(method, path string, q url.Values, body []byte) string {
	qq := url.Values{}
	for k, v := range q {
		if k == "timeoutSeconds" || k == "timeout" {
			continue
		}
		qq[k] = v
	}
	h := fnv64(body)
	return fmt.Sprintf("%s %s?%s #%x", method, path, qq.Encode(), h)
}

func fnv64(b []byte) uint64 {
	h := uint64(14695981039346656037)
	for _, c := range b {
		h ^= uint64(c)
		h *= 1099511628211
	}
	return h
}

func jsonString(v interface{}) string {
	b, _ := json.Marshal(v)
	return string(b)
}
