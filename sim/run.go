package sim

import (
	"crypto/sha256"
	"dst/simyield"
	"encoding/hex"
	"fmt"
	"strings"
	"testing"
	"testing/synctest"
	"time"
)

// Stage is one phase of a scenario. Do runs exactly once (it is not repeated
// after a simulated crash); the kernel then steps under Policy until the stage's
// end condition holds. Check is evaluated at the end of the stage.
type Stage struct {
	CheckOnBudget bool // run Check also when the stage runs out of steps (history oracles)
	Name          string
	Do            func(w *World)
	Policy        *Policy
	Steps         int                 // >0: run exactly this many kernel steps
	Until         func(w *World) bool // optional additional end condition (checked after each step)
	Quiet         bool                // run until the world is quiet (see RunQuiet)
	Window        time.Duration       // quiet window override
	MaxSteps      int                 // budget for Quiet / Until stages (default 4000)
	Check         func(w *World) *Violation
	OnBudget      func(w *World) *Violation // the stage did not end within MaxSteps (liveness oracle); nil = inconclusive
}

// Scenario builds a world for one run of one property.
type Scenario struct {
	Prop string
	Init func(w *World) // draws the swarm configuration, fills the store, sets programs and stages
}

// run-state of the stage machine (lives in World so that it survives crashes)
type stageState struct {
	idx       int
	did       bool
	steps     int
	idleRun   int
	lastEvent time.Duration // absolute simulated time of the last significant event
	lastClock time.Duration // simulated time at the last step in which the clock moved
	busyRun   int           // consecutive steps of a quiet stage during which the clock stood still
	clockBase time.Duration // simulated time accumulated by previous incarnations
}

// Result is the outcome of one run.
type Result struct {
	Violation  *Violation
	Steps      int
	Incs       int
	SimSeconds float64
	LogHash    string
	Tape       []uint32
	World      *World
	Budget     bool // a stage ran out of its step budget
	BudgetAt   string
}

var FairPolicy = &Policy{Name: "fair"}

// SimTime is simulated time since the start of the run, across incarnations.
func (w *World) SimTime() time.Duration { return w.ss.clockBase + time.Since(w.start) }

func (w *World) significant() int {
	// number of events after which the world cannot be called quiet
	n := len(w.Errs) + len(w.Store.History)
	for _, v := range w.FaultsFired {
		n += v
	}
	return n
}

// quietWindow is how long the world must stay without a significant event.
func (w *World) quietWindow(st *Stage) time.Duration {
	if st.Window > 0 {
		return st.Window
	}
	win := 3 * time.Second
	if w.ResyncHint > 0 {
		win += 2*w.ResyncHint + w.ResyncHint/5
	}
	// A failing item is re-queued with per-item exponential back-off; the delay
	// still pending after the last failure is read from the rate limiters of the
	// hosted controllers (failure count per item, base and cap as configured there).
	// It cannot be inferred from the time the failures took: an item that is
	// re-queued by watch events fails many times in little time, and each failure
	// doubles the delay.
	if d, ok := w.pendingBackoff(); ok {
		if d > 0 {
			win += d + d/8 + time.Second
		}
		w.Probes["quiet-window-from-rate-limiter"] = 1
	} else if n := len(w.Errs); n > 0 {
		// fallback (structures not as expected): the longest delay client-go's default
		// controller rate limiter ever asks for
		win += 1001 * time.Second
		w.Probes["quiet-window-fallback"] = 1
	}
	win += w.ExtraQuiet
	return win
}

// runStage executes the current stage to its end. It returns false when the run must stop.
func (w *World) runStage(st *Stage) bool {
	ss := &w.ss
	if !ss.did {
		ss.did = true
		ss.steps = 0
		ss.idleRun = 0
		if st.Do != nil {
			w.logf("stage %s", st.Name)
			st.Do(w)
			w.settle()
			w.checkInvariants()
		}
		ss.lastEvent = w.SimTime()
		w.lastSig = w.significant()
	}
	pol := st.Policy
	if pol == nil {
		pol = FairPolicy
	}
	max := st.MaxSteps
	if max == 0 {
		max = 4000
	}
	for w.Violation == nil {
		if st.Steps > 0 && ss.steps >= st.Steps {
			break
		}
		if st.Until != nil && st.Until(w) {
			break
		}
		if st.Quiet {
			if sig := w.significant(); sig != w.lastSig {
				w.lastSig = sig
				ss.lastEvent = w.SimTime()
			}
			if w.Idle() && !w.InSync() && !w.procBusy() && w.SimTime()-ss.lastEvent >= w.quietWindow(st) && w.connected() {
				break
			}
		}
		// a system whose requests keep growing (say, an annotation that doubles with every
		// sync) exhausts memory long before the step budget: 48 MB of recorded request
		// and hook bodies count as the budget, too
		if st.Steps == 0 && (ss.steps >= max || w.recordedBytes() > 48<<20) {
			w.budget = true
			w.budgetAt = st.Name
			if st.OnBudget != nil {
				if v := st.OnBudget(w); v != nil && !w.Known(v) {
					v.Step = w.step
					w.Violation = v
				}
			}
			if w.Violation == nil && st.CheckOnBudget && st.Check != nil {
				// the stage's oracle judges the recorded history and does not need the world at rest
				if v := st.Check(w); v != nil && !w.Known(v) {
					if v.Step == 0 {
						v.Step = w.step
					}
					w.Violation = v
				}
			}
			return false
		}
		ss.steps++
		if st.Quiet && w.Idle() && pol.EnvWhenIdle && w.EnvOps != nil {
			// a fair environment actor (e.g. the children's own controller) acts before the clock moves
			if ops := w.EnvOps(w); len(ops) > 0 {
				w.bumpStep()
				w.Store.Step = w.step
				op := ops[w.T.Pick(len(ops), "env")]
				w.logf("env %s", op.Name)
				op.Do(w)
				w.settle()
				w.checkInvariants()
				ss.idleRun = 0
				continue
			}
		}
		if st.Quiet && w.Idle() {
			// nothing to do: move the clock, in growing strides, but never past the window
			w.bumpStep()
			w.Store.Step = w.step
			ss.idleRun++
			d := 10 * time.Millisecond << uint(min(ss.idleRun, 16))
			if lim := w.quietWindow(st) / 3; d > lim {
				d = lim
			}
			w.Sleep(d)
			w.settle()
			w.checkInvariants()
			continue
		}
		ss.idleRun = 0
		if st.Quiet {
			// time is fair: a system that always has something to do (e.g. a controller
			// and the garbage collector undoing each other's work) must not keep the
			// clock from moving, or timers such as a reflector's reconnect back-off would
			// never fire. After 48 steps without clock movement the clock is advanced with
			// the parked calls left waiting (a slow server).
			if now := w.SimTime(); now != ss.lastClock {
				ss.lastClock, ss.busyRun = now, 0
			} else if ss.busyRun++; ss.busyRun >= 48 {
				w.bumpStep()
				w.Store.Step = w.step
				w.SleepHard(300 * time.Millisecond)
				w.settle()
				w.checkInvariants()
				w.Probes["clock-advanced-for-fairness"]++
				ss.lastClock, ss.busyRun = w.SimTime(), 0
				continue
			}
		}
		if !w.StepOnce(pol) {
			break
		}
	}
	if w.Violation != nil {
		return false
	}
	if st.Check != nil {
		if v := st.Check(w); v != nil && !w.Known(v) {
			if v.Step == 0 {
				v.Step = w.step
			}
			w.Violation = v
			return false
		}
	}
	return true
}

func (w *World) procBusy() bool {
	return w.Proc != nil && w.Proc.ReconcileBusy()
}

// incarnation is the body of one bubble.
func (w *World) incarnation() (finished bool) {
	w.mu.Lock()
	w.start = time.Now()
	w.crashed = false
	w.workers = map[int]*workerState{}
	w.parentOf = map[int]int{}
	w.pendReq, w.pendHook = nil, nil
	w.mu.Unlock()
	defer func() {
		if r := recover(); r != nil {
			if _, ok := r.(crashSignal); !ok {
				panic(r)
			}
			// simulated crash: freeze everything of this incarnation
			if w.OnCrash != nil && w.Violation == nil {
				if v := w.OnCrash(w); v != nil && !w.Known(v) {
					v.Step = w.step
					w.Violation = v
				}
			}
			w.mu.Lock()
			w.crashed = true
			for _, r := range w.pendReq {
				r.Fault = "crashed"
				r.Step = w.step
				w.Reqs = append(w.Reqs, r)
			}
			for _, h := range w.pendHook {
				h.Fault = "crashed"
				h.Step = w.step
				w.Hooks = append(w.Hooks, h)
			}
			w.pendReq, w.pendHook = nil, nil
			w.mu.Unlock()
			w.mu.Lock()
			w.ss.clockBase += time.Since(w.start)
			w.inc++
			w.mu.Unlock()
			resetProcessMemo()
			finished = w.Violation != nil
		}
	}()
	w.Incs++
	w.logf("boot incarnation %d", w.inc)
	w.OnBoot(w)
	w.settle()
	for w.ss.idx < len(w.Stages) {
		st := &w.Stages[w.ss.idx]
		if !w.runStage(st) {
			return true
		}
		w.ss.idx++
		w.ss.did = false
	}
	return true
}

// RunScenario executes one run to completion (all incarnations).
func RunScenario(t *testing.T, sc *Scenario, tape *Tape, salt uint64, known []KnownFinding, plan *FaultPlan) *Result {
	w := NewWorld(tape)
	w.KnownFindings = known
	w.Plan = plan
	if RaceErrors != nil {
		w.raceBase = RaceErrors()
		if RaceReport != nil {
			RaceReport() // drop what earlier runs of this process left behind
		}
	}
	GlobalSetup(w, salt)
	// log verbosity is part of the configuration of a run: at high verbosity
	// metacontroller executes code (diffs, dumps of objects) that it otherwise skips.
	// Nothing is written anywhere.
	SetLogVerbosity(w.T.Pick(4, "verbosity") == 3)
	sc.Init(w)
	simyield.Hook = nil
	if w.YieldPermille > 0 {
		w.ysalt = salt
		simyield.Hook = w.yieldPoint
		defer func() {
			simyield.Hook = nil
			w.Probes["yield-points-passed"] = int(w.ycount)
			w.Probes["yields-taken"] = int(w.yields)
		}()
	}
	for i := 0; i < 64; i++ {
		finished := false
		func() {
			defer func() {
				if r := recover(); r != nil {
					if strings.HasPrefix(fmt.Sprint(r), "deadlock: main bubble goroutine has exited") {
						return
					}
					panic(r)
				}
			}()
			synctest.Test(t, func(t *testing.T) {
				finished = w.incarnation()
			})
		}()
		if finished {
			break
		}
	}
	w.mu.Lock()
	w.crashed = true
	w.mu.Unlock()
	if w.Violation != nil && w.Violation.Prop == "" {
		w.Violation.Prop = sc.Prop
	}
	h := sha256.New()
	for _, l := range w.Log {
		h.Write([]byte(l))
		h.Write([]byte{'\n'})
	}
	for _, k := range w.Store.AllKeys() {
		h.Write([]byte(k.String()))
		h.Write(w.Store.objs[k].raw)
	}
	return &Result{
		Violation: w.Violation, Steps: w.step, Incs: w.Incs, SimSeconds: w.SimSeconds,
		LogHash: hex.EncodeToString(h.Sum(nil))[:16], Tape: tape.Used(), World: w,
		Budget: w.budget, BudgetAt: w.budgetAt,
	}
}

func (r *Result) String() string {
	v := "ok"
	if r.Violation != nil {
		v = r.Violation.String()
	}
	return fmt.Sprintf("steps=%d incs=%d sim=%.1fs log=%s %s", r.Steps, r.Incs, r.SimSeconds, r.LogHash, v)
}

func (w *World) recordedBytes() int64 {
	w.mu.Lock()
	defer w.mu.Unlock()
	return w.recBytes
}
