package sim

// Tape is the single source of every choice a run makes: swarm configuration,
// scenario content, every kernel decision and every fault. In seed mode values
// are produced lazily by xoshiro256** seeded from (seed, run); in replay mode
// they are read from a recorded (possibly minimised) prefix and are 0 past its
// end. Value 0 is always the benign default of a draw (no fault, arrival order,
// deliver now), so a shorter or zeroed tape is a simpler run.
type Tape struct {
	pre    []uint32
	replay bool
	s      [4]uint64
	used   []uint32
	labels []string // parallel to used: what each draw decided (for readable replays)
}

func splitmix(x *uint64) uint64 {
	*x += 0x9e3779b97f4a7c15
	z := *x
	z = (z ^ (z >> 30)) * 0xbf58476d1ce4e5b9
	z = (z ^ (z >> 27)) * 0x94d049bb133111eb
	return z ^ (z >> 31)
}

// NewSeedTape returns a tape that generates values from (seed, run).
func NewSeedTape(seed, run uint64) *Tape {
	t := &Tape{}
	x := seed*0x9E3779B97F4A7C15 ^ (run+1)*0xD1B54A32D192ED03
	for i := range t.s {
		t.s[i] = splitmix(&x)
	}
	return t
}

// NewReplayTape returns a tape that replays vals and then yields zeros.
func NewReplayTape(vals []uint32) *Tape {
	return &Tape{pre: append([]uint32(nil), vals...), replay: true}
}

func rotl(x uint64, k uint) uint64 { return (x << k) | (x >> (64 - k)) }

func (t *Tape) next() uint64 {
	r := rotl(t.s[1]*5, 7) * 9
	u := t.s[1] << 17
	t.s[2] ^= t.s[0]
	t.s[3] ^= t.s[1]
	t.s[1] ^= t.s[2]
	t.s[0] ^= t.s[3]
	t.s[2] ^= u
	t.s[3] = rotl(t.s[3], 45)
	return r
}

// Draw returns a value in [0,n). n<=1 consumes nothing and returns 0.
func (t *Tape) Draw(n int, label string) int {
	if n <= 1 {
		return 0
	}
	var v uint32
	if t.replay {
		if len(t.used) < len(t.pre) {
			v = t.pre[len(t.used)] % uint32(n)
		}
	} else {
		v = uint32(t.next()>>33) % uint32(n)
	}
	t.used = append(t.used, v)
	t.labels = append(t.labels, label)
	return int(v)
}

// Chance is true with probability permille/1000; tape value 0 means false.
func (t *Tape) Chance(permille int, label string) bool {
	if permille <= 0 {
		return false
	}
	if permille >= 1000 {
		return true
	}
	return t.Draw(1000, label) >= 1000-permille
}

// Pick returns an index into a list of n alternatives (0 = the default).
func (t *Tape) Pick(n int, label string) int { return t.Draw(n, label) }

// Used returns the values consumed so far.
func (t *Tape) Used() []uint32 { return append([]uint32(nil), t.used...) }

// Labels returns the label of each consumed value.
func (t *Tape) Labels() []string { return append([]string(nil), t.labels...) }

// Pos is the number of values consumed so far.
func (t *Tape) Pos() int { return len(t.used) }
