package sim

import (
	"fmt"
	"strings"
)

// C08Scenario: a rolling update of healthy children always completes and cleans up.
func C08Scenario() *Scenario {
	return &Scenario{Prop: "C08", Init: func(w *World) {
		t := w.T
		s := newRollingSetup(w, RollingOpts{AllowCluster: true, MaxReplicas: 5})
		if !s.Cfg.Parent.Namespaced && t.Pick(6, "keepknown") != 5 {
			// cluster-scoped parents cannot roll at all (open finding): keep a few
			s.Cfg.Parent = ResThing
		}
		p := s.Parents[0]
		if p.Res != s.Cfg.Parent {
			// re-create the parent and controller object for the changed scope
			w.Store.Delete(p.Res, p.NS, p.Name, DeleteOpts{}, "setup")
			w.Store.Delete(ResCompositeCtl, "", "cc", DeleteOpts{}, "setup")
			mustCreate(w.Store, ResCompositeCtl, "", s.Cfg.Object(), "setup")
			mustCreate(w.Store, ResThing, "ns1", NewThing(ResThing, "ns1", "p0", 1+t.Pick(5, "replicas2"), "c0"), "user")
			s.Parents = []ParentRef{{ResThing, "ns1", "p0"}}
			p = s.Parents[0]
			s.Sig = compositeSig(s.Cfg, s.Opts)
			w.Cfg["parent"] = "Thing"
		}
		fair := &Policy{Name: "fair+status", EnvWhenIdle: true}
		w.EnvOps = func(w *World) []EnvOp { return s.StatusActor(true) }
		changeStep := 0
		secondChange := t.Pick(2, "second-change") == 1
		w.Cfg["secondChange"] = fmt.Sprint(secondChange)
		change := func(w *World) {
			changeStep = w.step
			kind := w.T.Pick(4, "changekind")
			EditObject(w, p.Res, p.NS, p.Name, "user", func(o Object) {
				setPath(o, fmt.Sprintf("c%d", w.step), "spec", "template", "color")
				n := getInt(o, "spec", "replicas")
				switch kind {
				case 1: // and scale down in the same change
					if n > 1 {
						setPath(o, n-1, "spec", "replicas")
					}
				case 2: // and scale up
					setPath(o, n+1, "spec", "replicas")
				case 3: // and a non-template edit
					setPath(o, fmt.Sprintf("n%d", w.step), "spec", "note")
				}
			})
		}
		budget := func(w *World) *Violation {
			last := ""
			if len(w.Errs) > 0 {
				last = w.Errs[len(w.Errs)-1].Msg
			}
			return &Violation{Prop: "C08", Class: "rollout-not-finished", Sig: s.Sig,
				Detail: fmt.Sprintf("with every updated child turning healthy and no injected failure, the rollout started at step %d is still not finished after %d steps (%d sync errors; last: %.200s)", changeStep, w.step, len(w.Errs), last)}
		}
		stages := []Stage{
			{Name: "converge", Quiet: true, MaxSteps: 3000, Policy: fair, OnBudget: budget},
		}
		if p.Res.Namespaced && t.Pick(5, "reincarnation") == 4 {
			// the parent is deleted with orphan propagation, somebody clears its children
			// away, and a parent of the same name and spec is created again: what the old
			// one left behind (an ownerless ControllerRevision) must not stop the new one
			w.Cfg["reincarnation"] = "true"
			stages = append(stages, Stage{Name: "reincarnate", Quiet: true, MaxSteps: 3000, Policy: fair, OnBudget: budget, Do: func(w *World) {
				old := p.Get(w)
				if old == nil {
					return
				}
				w.Store.Delete(p.Res, p.NS, p.Name, DeleteOpts{Propagation: "Orphan"}, "user")
				for i := 0; i < 50 && p.Get(w) != nil; i++ {
					ops := GCOps(w)
					if len(ops) == 0 {
						break
					}
					ops[0].Do(w)
				}
				if p.Get(w) != nil {
					return // still held (a finalizer of metacontroller's): nothing to re-create
				}
				for _, c := range s.allChildren() {
					if len(ownerRefsOf(c)) == 0 && strings.HasPrefix(mstr(c, "name"), p.Name+"-") {
						w.Store.Delete(resOf(w, c), mstr(c, "namespace"), mstr(c, "name"), DeleteOpts{}, "user")
					}
				}
				again := Object{"apiVersion": old["apiVersion"], "kind": old["kind"], "spec": deepCopy(old)["spec"],
					"metadata": Object{"name": p.Name, "namespace": p.NS, "labels": metaRO(old)["labels"]}}
				mustCreate(w.Store, p.Res, p.NS, again, "user")
				w.Probe("c08:parent-reincarnated-over-leftover-revision")
			}})
		}
		stages = append(stages, Stage{Name: "change", Policy: lagPolicyNoHold(t), Steps: 10 + 20*t.Pick(4, "gap"), Do: change})
		if t.Pick(3, "midscale") == 2 {
			// scaled down in the middle of the rollout (no new revision when replicas are not
			// revisioned): with a hook that lists the highest ordinal first, the child that
			// goes away is one that has already been moved
			w.Cfg["scaledDownMidRollout"] = "true"
			stages = append(stages, Stage{Name: "scale-mid-rollout", Policy: fair, Steps: 5 + 10*t.Pick(4, "gap3"), Do: func(w *World) {
				EditObject(w, p.Res, p.NS, p.Name, "user", func(o Object) {
					if n := getInt(o, "spec", "replicas"); n > 1 {
						setPath(o, n-1, "spec", "replicas")
					}
				})
			}})
		}
		if secondChange {
			stages = append(stages, Stage{Name: "change2", Policy: fair, Steps: 5 + 10*t.Pick(4, "gap2"), Do: change})
		}
		stages = append(stages, Stage{Name: "finish", Quiet: true, MaxSteps: 4000, Policy: fair, OnBudget: budget,
			Check: func(w *World) *Violation { return c08Check(w, s, p, changeStep) }})
		w.Stages = stages
	}}
}

func lagPolicyNoHold(t *Tape) *Policy {
	if t.Pick(2, "policy") == 1 {
		return &Policy{Name: "shuffle", Shuffle: true, EnvProb: 200}
	}
	return &Policy{Name: "eager", EnvProb: 200}
}

func c08Check(w *World, s *Setup, p ParentRef, changeStep int) *Violation {
	po := p.Get(w)
	if po == nil {
		return nil
	}
	rule := s.rollingRule()
	// the desired end state: the last answer for the live parent spec
	var last *HookRec
	for _, h := range w.Hooks {
		if h.Code == 200 && h.Kind == "sync" && hookParentIs(h, "parent", p) && jsonString(getPath(h.Req, "parent", "spec")) == jsonString(po["spec"]) {
			last = h
		}
	}
	if last == nil {
		return &Violation{Prop: "C08", Class: "never-synced-latest", Sig: s.Sig, Detail: "the latest parent state was never sent to the hook"}
	}
	desired, _, err := desiredFromResponse(w, last.RespBody, "children", p.NS)
	if err != nil {
		return &Violation{Prop: "HARNESS", Class: "bad-program-response", Detail: err.Error()}
	}
	n := 0
	for id, d := range desired {
		if id.res != rule.Res {
			continue
		}
		n++
		want := deepCopy(d)
		delete(meta(want), "namespace")
		got := w.Store.Get(id.res, id.ns, id.name)
		if got == nil || !contains(got, want) {
			return &Violation{Prop: "C08", Class: "child-not-at-latest", Sig: s.Sig,
				Detail: fmt.Sprintf("at quiescence %s is %s, the latest revision desires %s", id, jsonString(got), jsonString(want))}
		}
	}
	cond := updatedCondition(po["status"])
	if getStr(cond, "status") != "True" {
		return &Violation{Prop: "C08", Class: "updated-not-true", Sig: s.Sig, Detail: "at quiescence the parent's Updated condition is " + jsonString(cond)}
	}
	revs := ControlledBy(w.Store, ResRevision, mstr(po, "uid"))
	if len(revs) != 1 {
		return &Violation{Prop: "C08", Class: "old-revisions-left", Sig: s.Sig, Detail: fmt.Sprintf("at quiescence %d ControllerRevisions are owned by the parent: %v", len(revs), objNames(revs))}
	}
	// linear bound on the number of syncs since the last template change
	syncs := 0
	for _, sy := range w.Syncs("parent") {
		if sy.StartStep > changeStep && sy.Parent != nil {
			// (a sync whose ControllerRevision write the server itself refused - create:
			// AlreadyExists, delete: NotFound, update: Conflict - worked from a revision
			// cache that had not caught up yet: the slow revision watch of some C09 runs.
			// It touched nothing (C09's ordering clause) and is retried as often as the
			// watch stays behind, which is not the rollout's doing)
			refused := false
			for _, q := range sy.Reqs {
				if q.Res == ResRevision && q.IsWrite() && q.Answered && q.Fault == "" && (q.Code == 409 || q.Code == 404) {
					refused = true
				}
			}
			if refused {
				continue
			}
			syncs++
		}
	}
	// (a child somebody deleted during the rollout - C09 - has to be made and become
	// healthy once more: one more child's worth of syncs)
	if bound := 12 + 10*(n+w.Probes["c09:child-of-old-revision-deleted-mid-rollout"]); syncs > bound {
		return &Violation{Prop: "C08", Class: "too-many-syncs", Sig: s.Sig, Detail: fmt.Sprintf("%d syncs for a rollout of %d children (bound %d)", syncs, n, bound)}
	}
	w.Probe("c08:rollout-finished")
	// a rollout never waits on a child that exists, is up to date and passes its checks
	for _, rs := range buildRollSyncs(w, s) {
		if !rs.complete || rs.sy.EndStep == 0 || rs.desired[""] == nil {
			continue
		}
		paths := fieldPathsOf(s.Cfg)
		latestPatch := jsonString(makeFieldPatch(rs.parent, paths))
		var latestBefore *revInfo
		for _, r := range rs.before {
			if jsonString(r.Patch) == latestPatch {
				latestBefore = r
			}
		}
		if latestBefore == nil {
			continue
		}
		waitingCandidate := ""
		movedAny := false
		for _, key := range rs.order {
			if latestBefore.claims(key) {
				continue
			}
			claimed := false
			for _, r := range rs.before {
				if r.claims(key) {
					claimed = true
				}
			}
			onAfter := false
			for _, r := range rs.after {
				if r.Name == rs.latestRev && r.claims(key) {
					onAfter = true
				}
			}
			if claimed && onAfter {
				movedAny = true // the one move of this sync was made
			}
			if claimed && !onAfter && waitingCandidate == "" {
				waitingCandidate = key
			}
		}
		if waitingCandidate == "" || movedAny {
			continue
		}
		w.Probe("c08:sync-left-rollout-waiting")
		allHealthyAlways := true
		// the gate looks at every child the latest revision claims once unclaimed
		// children have been handed to it in this very sync
		gateSet := append([]string{}, latestBefore.Claims...)
		for _, r := range rs.after {
			if r.Name == rs.latestRev {
				for _, c := range r.Claims {
					if !latestBefore.claims(c) {
						gateSet = append(gateSet, c)
					}
				}
			}
		}
		for _, key := range gateSet {
			if rs.desired[""][key] == nil {
				continue
			}
			for _, ver := range rs.observedVersions(w, s, key) {
				if !rs.healthy(w, s, key, ver) {
					allHealthyAlways = false
				}
			}
		}
		revisionWriteFailed := false
		for _, q := range rs.sy.Reqs {
			if q.Res == ResRevision && q.IsWrite() && !accepted(q) {
				revisionWriteFailed = true
			}
		}
		if allHealthyAlways && !revisionWriteFailed && len(rs.sy.Errs) == 0 {
			return &Violation{Prop: "C08", Class: "waited-on-healthy-children", Sig: s.Sig, Step: rs.sy.EndStep,
				Detail: fmt.Sprintf("sync started at step %d left %s on an old revision although every child on the latest revision existed, was up to date and passed its checks in every view of that sync (before: %s)", rs.sy.StartStep, waitingCandidate, sortedClaims(rs.before))}
		}
	}
	return nil
}
