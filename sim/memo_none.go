//go:build nomemo

package sim

const MemoResetAvailable = false

func resetProcessMemo() {}
