package sim

import (
	"fmt"
	"strings"
)

// C06Scenario: each child type is changed only by the method its update strategy allows.
// Observed/desired pairs are built so that their relation is known by construction.
func C06Scenario() *Scenario {
	return &Scenario{Prop: "C06", Init: func(w *World) {
		t := w.T
		switch t.Pick(5, "family") {
		case 3:
			c06Lagging(w)
			return
		case 4:
			c06Switching(w)
			return
		}
		methods := []string{"InPlace", "", "OnDelete", "Recreate", "RollingInPlace", "RollingRecreate", "Sideways"}
		s := NewCompositeSetup(w, GenOpts{Methods: methods, MaxWorkers: 1, MaxParents: 1, MaxReplicas: 3, GenSel: 0, Finalize: 0, OneKind: false})
		// start from an empty neighbourhood: remove generated initial objects
		for _, c := range s.allChildren() {
			res := resOf(w, c)
			EditObject(w, res, mstr(c, "namespace"), mstr(c, "name"), "setup", func(o Object) { delete(meta(o), "finalizers") })
			w.Store.Delete(res, mstr(c, "namespace"), mstr(c, "name"), DeleteOpts{}, "setup")
		}
		p := s.Parents[0]
		EditObject(w, p.Res, p.NS, p.Name, "setup", func(o Object) {
			if getInt(o, "spec", "replicas") == 0 {
				setPath(o, int64(2), "spec", "replicas")
			}
		})
		perturbations := []string{"equal", "owned-drift", "owned-removed", "foreign-drift", "status-drift", "foreign-label", "pending-deletion", "undesired", "desired-change"}
		// a field somebody else set on a child, which the hook then starts to return with the
		// very same value, and later drops: from the moment it returned it the field is the
		// hook's, so dropping it must remove it
		perturbations = append(perturbations, "adopt-then-drop")
		if s.Cfg.Finalize {
			// the parent is deleted; the finalize hook drops every child
			perturbations = append(perturbations, "parent-finalizing", "parent-finalizing")
		}
		pert := perturbations[t.Pick(len(perturbations), "perturbation")]
		w.Cfg["perturbation"] = pert
		// in a third of the runs the server refuses some in-place updates of children
		// (validation, immutable field, overload): the decision table must hold all the same
		faultsLeft := 0
		if t.Pick(3, "updatefaults") == 2 {
			faultsLeft = 1 + t.Pick(3, "nfaults")
		}
		w.Cfg["updateFaults"] = fmt.Sprint(faultsLeft)
		faulty := &Policy{Name: "refuse-updates", APIFault: 700, APIFaults: []string{"422", "500"}, FaultFilter: func(r *ReqRec) bool {
			if faultsLeft > 0 && r.Verb == "update" && r.Res != nil && s.Cfg.Rule(r.Res) != nil {
				faultsLeft--
				return true
			}
			return false
		}}
		var target childID
		pertStep := 0
		rule := func() *ChildRule { return s.Cfg.Rule(target.res) }
		w.Stages = []Stage{
			{Name: "converge", Quiet: true, MaxSteps: 3000},
			{Name: "perturb", Quiet: true, MaxSteps: 3000, Policy: faulty,
				Do: func(w *World) {
					pertStep = w.step
					po := p.Get(w)
					kids := []Object{}
					for _, k := range s.ChildKinds() {
						kids = append(kids, ControlledBy(w.Store, k, mstr(po, "uid"))...)
					}
					if len(kids) == 0 {
						pert = "none-possible"
						w.Cfg["perturbation"] = pert
						return
					}
					c := kids[t.Pick(len(kids), "victim")]
					res := resOf(w, c)
					target = childID{res, mstr(c, "namespace"), mstr(c, "name")}
					w.Cfg["method"] = s.Cfg.Rule(res).Method
					f := childContentField(res)
					switch pert {
					case "owned-drift":
						EditObject(w, res, target.ns, target.name, "user", func(o Object) { setPath(o, "drifted", f, "color") })
					case "owned-removed":
						// the hook stops specifying `note`; the last-applied record still has it
						EditObject(w, p.Res, p.NS, p.Name, "user", func(o Object) { delete(getMap(o, "spec"), "note") })
					case "foreign-drift":
						EditObject(w, res, target.ns, target.name, "user", func(o Object) { setPath(o, "someone-elses", f, "foreign") })
					case "status-drift":
						EditStatus(w, res, target.ns, target.name, "status", func(o Object) { o["status"] = Object{"phase": "Running", "n": int64(w.step)} })
					case "foreign-label":
						EditObject(w, res, target.ns, target.name, "user", func(o Object) {
							setPath(o, "x", "metadata", "labels", "extra")
							setPath(o, "y", "metadata", "annotations", "extra")
						})
					case "pending-deletion":
						// deletion first, drift afterwards: every cache view that shows the
						// drift also shows the deletion timestamp
						EditObject(w, res, target.ns, target.name, "user", func(o Object) {
							setPath(o, []interface{}{"example.com/hold"}, "metadata", "finalizers")
						})
						w.Store.Delete(res, target.ns, target.name, DeleteOpts{}, "user")
						EditObject(w, res, target.ns, target.name, "user", func(o Object) { setPath(o, "drifted", f, "color") })
					case "undesired":
						n := deepCopy(c)
						nm := meta(n)
						for _, k := range []string{"uid", "resourceVersion", "creationTimestamp", "generation", "annotations"} {
							delete(nm, k)
						}
						nm["name"] = target.name + "-extra"
						delete(n, "status")
						target.name = target.name + "-extra"
						w.Store.Create(res, target.ns, n, "user")
					case "desired-change":
						EditObject(w, p.Res, p.NS, p.Name, "user", func(o Object) { setPath(o, "changed", "spec", "template", "color") })
					case "parent-finalizing":
						w.Store.Delete(p.Res, p.NS, p.Name, DeleteOpts{Propagation: "Background"}, "user")
					case "adopt-then-drop":
						EditObject(w, res, target.ns, target.name, "user", func(o Object) { setPath(o, "someone-elses", f, "foreign") })
					}
				},
				Check: func(w *World) *Violation {
					if pert == "none-possible" {
						return nil
					}
					if pert == "adopt-then-drop" {
						// so far a foreign field was set: no write is expected, as for foreign-drift
						return c06Check(w, s, p, target, "foreign-drift", pertStep, rule())
					}
					return c06Check(w, s, p, target, pert, pertStep, rule())
				}},
		}
		if pert == "adopt-then-drop" {
			w.Stages = append(w.Stages,
				Stage{Name: "adopt", Quiet: true, MaxSteps: 3000, Do: func(w *World) {
					EditObject(w, p.Res, p.NS, p.Name, "user", func(o Object) { setPath(o, "someone-elses", "spec", "template", "foreign") })
				}},
				Stage{Name: "drop", Quiet: true, MaxSteps: 3000, Do: func(w *World) {
					EditObject(w, p.Res, p.NS, p.Name, "user", func(o Object) { delete(getMap(o, "spec", "template"), "foreign") })
				}, Check: func(w *World) *Violation {
					if pert == "none-possible" {
						return nil
					}
					po := p.Get(w)
					for _, cr := range s.Cfg.Children {
						switch cr.Method {
						case "InPlace", "RollingInPlace", "Recreate", "RollingRecreate":
						default:
							continue
						}
						for _, c := range ControlledBy(w.Store, cr.Res, mstr(po, "uid")) {
							if v, has := getMap(c, childContentField(cr.Res))["foreign"]; has {
								return &Violation{Prop: "C06", Class: "dropped-field-not-removed", Sig: map[string]string{"controller": "composite", "method": cr.Method, "perturbation": pert},
									Detail: fmt.Sprintf("method %q: %s %s/%s still has %s.foreign = %v at rest, although the hook returned that field for a while and then stopped returning it", cr.Method, cr.Res.Kind, mstr(c, "namespace"), mstr(c, "name"), childContentField(cr.Res), v)}
							}
						}
					}
					return nil
				}})
		}
	}}
}

func c06Check(w *World, s *Setup, p ParentRef, target childID, pert string, pertStep int, rule *ChildRule) *Violation {
	method := rule.Method
	sig := map[string]string{"controller": "composite", "method": method, "perturbation": pert}
	type wr struct{ r *ReqRec }
	var onTarget, onOthers []*ReqRec
	for _, r := range w.Reqs {
		if r.ParkStep <= pertStep || !r.IsWrite() || r.Res == nil || s.Cfg.Rule(r.Res) == nil {
			continue
		}
		if r.Res == target.res && r.NS == target.ns && r.Name == target.name || (r.Verb == "create" && r.Res == target.res && r.Post != nil && mstr(mustParse(r.Post), "name") == target.name) {
			onTarget = append(onTarget, r)
		} else {
			onOthers = append(onOthers, r)
		}
	}
	verbs := func(rs []*ReqRec) string {
		var v []string
		for _, r := range rs {
			v = append(v, fmt.Sprintf("%s->%d", r.Verb, r.Code))
		}
		return strings.Join(v, " ")
	}
	count := func(rs []*ReqRec, verb string) int {
		n := 0
		for _, r := range rs {
			if r.Verb == verb {
				n++
			}
		}
		return n
	}
	bad := func(class, why string) *Violation {
		return &Violation{Prop: "C06", Class: class, Sig: sig,
			Detail: fmt.Sprintf("method %q, perturbation %s on %s: %s (requests on it: [%s]; on other children: [%s])", method, pert, target, why, verbs(onTarget), verbs(onOthers))}
	}
	for _, r := range append(append([]*ReqRec{}, onTarget...), onOthers...) {
		if r.Verb == "delete" {
			o := parseDeleteOpts(r.Body)
			if o.UID == "" || o.Propagation != "Background" {
				return bad("delete-options", "a DELETE without UID precondition or background propagation was sent")
			}
		}
	}
	noWrite := func(rs []*ReqRec, who string) *Violation {
		if len(rs) > 0 {
			return bad("unexpected-write", "no write was expected on "+who)
		}
		return nil
	}
	stored := w.Store.Get(target.res, target.ns, target.name)
	rollingOther := false
	_ = rollingOther
	switch pert {
	case "equal", "foreign-drift", "status-drift", "foreign-label":
		if v := noWrite(onTarget, "a child that matches its desired state in every field the hook owns"); v != nil {
			return v
		}
		return noWrite(onOthers, "the other children")
	case "pending-deletion":
		if v := noWrite(onTarget, "a child that is pending deletion"); v != nil {
			return v
		}
		return noWrite(onOthers, "the other children")
	case "parent-finalizing":
		// every child is dropped by the finalize answer: deleted (options judged above), never updated
		all := append(append([]*ReqRec{}, onTarget...), onOthers...)
		if count(all, "update")+count(all, "patch")+count(all, "create") > 0 {
			return bad("unexpected-write", "children of a parent that is being finalized with an empty answer are only deleted")
		}
		if count(all, "delete") == 0 {
			return bad("undesired-child-not-deleted", "the finalize answer desires no child, yet none was deleted")
		}
		return nil
	case "undesired":
		if count(onTarget, "delete") == 0 || count(onTarget, "update")+count(onTarget, "patch") > 0 {
			return bad("undesired-child-not-deleted", "an owned child that is not desired must be deleted")
		}
		if stored != nil {
			return bad("undesired-child-not-deleted", "the undesired child still exists at quiescence")
		}
		return noWrite(onOthers, "the other children")
	case "owned-drift", "owned-removed", "desired-change":
		judge := func(rs []*ReqRec, single bool) *Violation {
			switch method {
			case "", "OnDelete":
				return noWrite(rs, "a child with the OnDelete (or no) strategy")
			case "Recreate", "RollingRecreate":
				if count(rs, "update")+count(rs, "patch") > 0 {
					return bad("updated-in-place-under-recreate", "Recreate strategies must never update in place")
				}
				if count(rs, "delete") == 0 || count(rs, "create") == 0 {
					return bad("not-recreated", "the child must be deleted and created again")
				}
			case "InPlace", "RollingInPlace":
				if count(rs, "delete") > 0 {
					return bad("deleted-under-inplace", "InPlace strategies must never delete a desired child")
				}
				if count(rs, "update") == 0 {
					return bad("not-updated", "the child must be updated in place")
				}
			default:
				if len(rs) > 0 {
					return bad("write-with-unknown-strategy", "an unknown strategy must not cause any write")
				}
				if len(w.Errs) == 0 {
					return bad("unknown-strategy-not-reported", "an unknown strategy must be reported as an error")
				}
			}
			return nil
		}
		if pert == "owned-drift" {
			if v := judge(onTarget, true); v != nil {
				return v
			}
			if v := noWrite(onOthers, "the other children"); v != nil {
				return v
			}
		} else {
			// the desired state of every child of every kind changed: judge kind by kind
			byKind := map[*Resource][]*ReqRec{}
			for _, r := range append(append([]*ReqRec{}, onTarget...), onOthers...) {
				byKind[r.Res] = append(byKind[r.Res], r)
			}
			for _, cr := range s.Cfg.Children {
				method = cr.Method
				sig["method"] = method
				if len(ControlledBy(w.Store, cr.Res, mstr(p.Get(w), "uid"))) == 0 && len(byKind[cr.Res]) == 0 {
					continue
				}
				if v := judge(byKind[cr.Res], false); v != nil {
					return v
				}
			}
			method = rule.Method
		}
		// end state for updating strategies: the owned field has the desired value again
		if method != "" && method != "OnDelete" && method != "Sideways" && pert == "owned-drift" {
			if stored == nil || getStr(stored, childContentField(target.res), "color") == "drifted" {
				return bad("drift-not-repaired", "at quiescence the owned field still has the drifted value")
			}
		}
	}
	return nil
}
