// verifcheck is the runner of the deterministic-simulation checks:
//
//	verifcheck run --prop C01 --tier quick|thorough   build from /repo, fan out seeded runs, confirm,
//	                                                  minimise and report violations, write evidence
//	verifcheck replay <file>                          re-execute a replay file in a fresh process
//	verifcheck selftest [--prop C01]                  determinism self-test (same seed, many processes)
//
// Exit codes: 0 held on everything explored; 1 at least one confirmed violation
// that is not a listed known finding; 2 the check could not decide (build
// failure, nondeterminism, harness failure). Exit 2 never prints VIOLATION.
package main

import (
	"bufio"
	"bytes"
	"encoding/json"
	"flag"
	"fmt"
	"os"
	"os/exec"
	"path/filepath"
	"sort"
	"strconv"
	"strings"
	"sync"
	"time"
)

var verifDir = "/verif"

func goEnv() []string {
	env := os.Environ()
	env = append(env, "GOFLAGS=-mod=mod", "GOPROXY=off", "GOSUMDB=off", "GOTOOLCHAIN=local", "CGO_ENABLED=0")
	return env
}

func die2(format string, a ...interface{}) {
	fmt.Fprintf(os.Stderr, "verifcheck: "+format+"\n", a...)
	os.Exit(2)
}

// ---------------------------------------------------------------------------
// build

func ensureOverlay() string {
	ov := filepath.Join(verifDir, "build", "goroot", "overlay.json")
	if _, err := os.Stat(ov); err != nil {
		cmd := exec.Command("python3", filepath.Join(verifDir, "rt", "gen.py"))
		cmd.Env = goEnv()
		if out, err := cmd.CombinedOutput(); err != nil {
			die2("cannot generate GOROOT overlay: %v\n%s", err, out)
		}
	}
	return ov
}

// build compiles the worker test binary from /repo's current working tree.
func build(tag string, race bool) (string, string) {
	ov := instrumentedOverlay(tag + os.Getenv("VERIF_TAG") + map[bool]string{true: ".race", false: ""}[race])
	// VERIF_TAG keeps concurrent invocations for one property from sharing a binary name
	tag += os.Getenv("VERIF_TAG")
	name := "drivers." + tag + ".test"
	if race {
		name = "drivers." + tag + ".race.test"
	}
	bin := filepath.Join(verifDir, "build", name)
	// VERIF_REPO (development aid, never set by a registered command): build against
	// another checkout of metacontroller than /repo, e.g. a scratch worktree that
	// carries a seeded change, through an alternative go.mod
	modfile := ""
	if alt := os.Getenv("VERIF_REPO"); alt != "" {
		b, err := os.ReadFile(filepath.Join(verifDir, "go.mod"))
		if err != nil {
			die2("cannot read go.mod: %v", err)
		}
		modfile = filepath.Join(verifDir, "build", "go."+tag+".mod")
		os.WriteFile(modfile, bytes.ReplaceAll(b, []byte("=> /repo"), []byte("=> "+alt)), 0o644)
		sum, _ := os.ReadFile(filepath.Join(verifDir, "go.sum"))
		os.WriteFile(strings.TrimSuffix(modfile, ".mod")+".sum", sum, 0o644)
	}
	try := func(tags string) ([]byte, error) {
		args := []string{"test", "-c", "-o", bin, "-overlay", ov, "-ldflags=-checklinkname=0"}
		if modfile != "" {
			args = append(args, "-modfile", modfile)
		}
		if tags != "" {
			args = append(args, "-tags", tags)
		}
		if race {
			args = append(args, "-race")
		}
		args = append(args, "./drivers")
		cmd := exec.Command("go1.26.8", args...)
		cmd.Dir = verifDir
		cmd.Env = goEnv()
		if race {
			cmd.Env = append(cmd.Env, "CGO_ENABLED=1")
		}
		return cmd.CombinedOutput()
	}
	out, err := try("")
	memo := "linkname"
	if err != nil && bytes.Contains(out, []byte("lastUpdatedCache")) || err != nil && bytes.Contains(out, []byte("cacheLock")) {
		out, err = try("nomemo")
		memo = "unavailable"
	}
	if err != nil {
		die2("build failed:\n%s", out)
	}
	return bin, memo
}

// ---------------------------------------------------------------------------
// worker protocol

type Job struct {
	ID   int      `json:"id"`
	Seed uint64   `json:"seed"`
	Run  int      `json:"run"`
	Tape []uint32 `json:"tape"`
	Full bool     `json:"full"`
	Ref  bool     `json:"ref,omitempty"`
	Pos  int      `json:"pos,omitempty"`
	Kind string   `json:"kind,omitempty"`
}

// fault kinds enumerated at every in-sync interaction of a reference run
var enumKinds = map[string]map[byte][]string{
	"C09": {'A': {"crash-before", "crash-after", "404", "409", "410", "422", "500", "neterr", "lost"}, 'H': {"crash"}},
	"C12": {'A': {"404", "409", "exists", "410", "422", "500", "503", "504", "neterr", "lost"}, 'H': {"500", "429", "refused", "stall", "garbage"}},
}

// fault kinds that are also enumerated "twice in a row" (FaultPlan.Again)
var againKinds = map[string]map[string]bool{
	"C09": {"crash-before": true, "crash-after": true, "500": true, "lost": true},
}

type RunLine struct {
	Start        *int              `json:"start,omitempty"`
	Recycle      bool              `json:"recycle,omitempty"`
	Fatal        string            `json:"fatal,omitempty"`
	Run          int               `json:"run"`
	Job          int               `json:"job"`
	Steps        int               `json:"steps"`
	Incs         int               `json:"incs"`
	Sim          float64           `json:"sim_s"`
	LogHash      string            `json:"log"`
	StateHash    string            `json:"state"`
	Writes       int               `json:"writes"`
	Hooks        int               `json:"hooks"`
	Reqs         int               `json:"reqs"`
	Faults       map[string]int    `json:"faults,omitempty"`
	Probes       map[string]int    `json:"probes,omitempty"`
	Known        map[string]int    `json:"known,omitempty"`
	Interactions string            `json:"interactions,omitempty"`
	Pos          int               `json:"pos,omitempty"`
	Kind         string            `json:"kind,omitempty"`
	NotFired     bool              `json:"not_fired,omitempty"`
	Violation    string            `json:"violation,omitempty"`
	Prop         string            `json:"prop,omitempty"`
	Class        string            `json:"class,omitempty"`
	VStep        int               `json:"vstep,omitempty"`
	Sig          map[string]string `json:"sig,omitempty"`
	Budget       string            `json:"budget,omitempty"`
	Cfg          map[string]string `json:"cfg,omitempty"`
	TapeLen      int               `json:"tape_len"`
	Tape         []uint32          `json:"tape,omitempty"`
	Log          []string          `json:"eventlog,omitempty"`
	Sample       []string          `json:"sample,omitempty"`
	Race         bool              `json:"race,omitempty"`
}

type workerResult struct {
	recycled bool
	lines    []RunLine
	died     bool
	inflight int // job id that was running when the process died
	stderr   string
	fatal    string
}

var jobFileSeq int
var jobFileMu sync.Mutex

// raceBins: worker binaries built with -race. They get a race-detector log
// path, and their exit status is ignored when every job reported (the testing
// package fails a test binary in which the detector reported anything).
var raceBins = map[string]bool{}

// freshProcessPerRun: scenarios in which metacontroller's process-global state
// matters (C20 restarts controllers: the Prometheus registry and the 20-minute
// metrics cache of pkg/metrics live as long as the process). Their runs do not
// share a worker process, so that a run depends on nothing but its own history.
var freshProcessPerRun = map[string]bool{"C20": true}

// raceProps: properties whose check includes a batch of runs under the race detector.
var raceProps = map[string]bool{"C17": true}

// runWorker executes jobs in one fresh worker process.
func runWorker(bin, prop string, jobs []Job, procs int, sample int, timeout time.Duration) workerResult {
	jobFileMu.Lock()
	jobFileSeq++
	mySeq := jobFileSeq
	jf := filepath.Join(verifDir, "build", fmt.Sprintf("jobs.%d.%d.jsonl", os.Getpid(), jobFileSeq))
	jobFileMu.Unlock()
	var buf bytes.Buffer
	enc := json.NewEncoder(&buf)
	for _, j := range jobs {
		enc.Encode(j)
	}
	os.WriteFile(jf, buf.Bytes(), 0o644)
	defer os.Remove(jf)
	cmd := exec.Command(bin, "-test.run", "^TestWorker$", "-test.timeout", "0")
	cmd.Env = append(os.Environ(), "DST_PROP="+prop, "DST_JOBS="+jf, "DST_PROCS="+strconv.Itoa(procs), "DST_SAMPLE="+strconv.Itoa(sample), "GOTRACEBACK=all", "GOGC=off", "DST_KNOWN="+knownFile())
	if raceBins[bin] {
		rl := filepath.Join(verifDir, "build", fmt.Sprintf("racelog.%d.%d", os.Getpid(), mySeq))
		// the detector's shadow memory multiplies the footprint: recycle race workers early
		cmd.Env = append(cmd.Env, "GORACE=log_path="+rl+" halt_on_error=0", "DST_RACELOG="+rl, "DST_MAXHEAP_MB=400", "DST_HARDHEAP_MB=2500")
		defer func() {
			if fs, _ := filepath.Glob(rl + ".*"); len(fs) > 0 {
				for _, f := range fs {
					os.Remove(f)
				}
			}
		}()
	}
	var stdout, stderr bytes.Buffer
	cmd.Stdout = &stdout
	cmd.Stderr = &stderr
	done := make(chan error, 1)
	if err := cmd.Start(); err != nil {
		return workerResult{died: true, inflight: -1, stderr: err.Error()}
	}
	go func() { done <- cmd.Wait() }()
	var err error
	select {
	case err = <-done:
	case <-time.After(timeout):
		cmd.Process.Kill()
		<-done
		err = fmt.Errorf("watchdog: worker exceeded %v", timeout)
		stderr.WriteString("\n" + err.Error())
	}
	res := workerResult{inflight: -1}
	sc := bufio.NewScanner(&stdout)
	sc.Buffer(make([]byte, 1<<20), 1<<28)
	finished := map[int]bool{}
	lastStart := -1
	for sc.Scan() {
		b := sc.Bytes()
		if len(b) == 0 || b[0] != '{' {
			continue
		}
		var l RunLine
		if json.Unmarshal(b, &l) != nil {
			continue
		}
		if l.Fatal != "" {
			res.fatal = l.Fatal
			continue
		}
		if l.Start != nil {
			lastStart = *l.Start
			continue
		}
		if l.Recycle {
			res.recycled = true
			continue
		}
		finished[l.Job] = true
		res.lines = append(res.lines, l)
	}
	if err == nil && res.recycled && len(res.lines) < len(jobs) {
		// the worker asked to be replaced by a fresh process (heap bound): run the rest there
		var rest []Job
		for _, j := range jobs {
			if !finished[j.ID] {
				rest = append(rest, j)
			}
		}
		more := runWorker(bin, prop, rest, procs, sample, timeout)
		more.lines = append(res.lines, more.lines...)
		return more
	}
	if err != nil && raceBins[bin] && len(res.lines) == len(jobs) {
		err = nil
	}
	if err != nil || len(res.lines) < len(jobs) {
		res.died = true
		if lastStart >= 0 && !finished[lastStart] {
			res.inflight = lastStart
		}
		res.stderr = stdout.String()[max(0, stdout.Len()-4000):] + "\n" + stderr.String()
		if len(res.stderr) > 60000 {
			res.stderr = res.stderr[:60000]
		}
	}
	return res
}

// ---------------------------------------------------------------------------
// known findings

type Finding struct {
	Property  string            `json:"property"`
	State     string            `json:"state"`
	Class     string            `json:"class"`
	Signature map[string]string `json:"signature"`
	What      string            `json:"what"`
	Where     string            `json:"where"`
	Commit    string            `json:"commit,omitempty"`
}

func loadFindings() []Finding {
	var f struct {
		Findings []Finding `json:"findings"`
	}
	b, err := os.ReadFile(filepath.Join(verifDir, "known_findings.json"))
	if err != nil {
		return nil
	}
	if err := json.Unmarshal(b, &f); err != nil {
		die2("known_findings.json is not valid JSON: %v", err)
	}
	return f.Findings
}

func matchFinding(fs []Finding, l *RunLine) *Finding {
	for i := range fs {
		f := &fs[i]
		if f.State != "open" || f.Property != l.Prop || f.Class != l.Class {
			continue
		}
		ok := true
		for k, v := range f.Signature {
			if l.Sig[k] != v {
				ok = false
			}
		}
		if ok {
			return f
		}
	}
	return nil
}

// ---------------------------------------------------------------------------
// replay files

type Replay struct {
	Property  string            `json:"property"`
	Class     string            `json:"class"`
	Step      int               `json:"step"`
	Detail    string            `json:"violation"`
	Seed      uint64            `json:"seed"`
	Run       int               `json:"run"`
	FaultPos  int               `json:"fault_position,omitempty"`
	FaultKind string            `json:"fault_kind,omitempty"`
	Tape      []uint32          `json:"tape"`
	OrigLen   int               `json:"original_tape_len"`
	LogHash   string            `json:"log_hash"`
	Cfg       map[string]string `json:"cfg"`
	Sig       map[string]string `json:"signature"`
	Log       []string          `json:"event_log"`
	RepoTree  string            `json:"repo_tree"`
	Crash     string            `json:"process_crash,omitempty"`
	Race      bool              `json:"race_detector_build,omitempty"`
}

func repoTree() string {
	out, err := exec.Command("git", "-C", "/repo", "rev-parse", "HEAD").Output()
	if err != nil {
		return "unknown"
	}
	h := strings.TrimSpace(string(out))
	st, _ := exec.Command("git", "-C", "/repo", "status", "--porcelain").Output()
	if len(bytes.TrimSpace(st)) > 0 {
		h += "+dirty"
	}
	return h
}

// ---------------------------------------------------------------------------
// tiers

type tierCfg struct {
	runs     int
	minimise time.Duration
}

func tierOf(prop, tier string) tierCfg {
	// quick sizes aim at about half a minute of simulation on 16 cores (the rarest of
	// the seeded changes in seeded/ needs one to two thousand runs of its check)
	q := map[string]int{"C01": 4000, "C02": 3000, "C03": 4000, "C04": 1500, "C06": 4000, "C07": 3000, "C08": 3000, "C09": 800,
		"C10": 4000, "C11": 4000, "C12": 600, "C13": 4000, "C14": 4000, "C15": 3000, "C16": 1000, "C17": 600, "C18": 12000, "C19": 12000, "C20": 2000}
	base := 400
	if n, ok := q[prop]; ok {
		base = n
	}
	if v := os.Getenv("VERIF_RUNS"); v != "" {
		if n, err := strconv.Atoi(v); err == nil {
			return tierCfg{runs: n, minimise: 60 * time.Second}
		}
	}
	if tier == "thorough" {
		return tierCfg{runs: base * 8, minimise: 180 * time.Second}
	}
	return tierCfg{runs: base, minimise: 45 * time.Second}
}

// ---------------------------------------------------------------------------

type crashRec struct {
	job    Job
	stderr string
	bin    string
}

func classifyCrash(stderr string) (bool, string) {
	// A dead worker is a violation only when the process was taken down by
	// metacontroller or library code (panic outside a recovered worker, fatal
	// "concurrent map" error); anything in the simulator itself is a harness failure.
	idx := strings.Index(stderr, "panic: ")
	if i := strings.Index(stderr, "fatal error: "); i >= 0 && (idx < 0 || i < idx) {
		idx = i
	}
	if idx < 0 {
		return false, "worker died without panic output"
	}
	tail := stderr[idx:]
	first := tail
	if i := strings.IndexByte(first, '\n'); i >= 0 {
		first = first[:i]
	}
	// find the first goroutine trace after the message and its first non-runtime frame
	lines := strings.Split(tail, "\n")
	for _, ln := range lines[1:] {
		ln = strings.TrimSpace(ln)
		if ln == "" || strings.HasPrefix(ln, "goroutine ") || strings.HasPrefix(ln, "/") || strings.HasPrefix(ln, "[") {
			continue
		}
		if strings.HasPrefix(ln, "runtime.") || strings.HasPrefix(ln, "panic(") || strings.HasPrefix(ln, "testing.") || strings.HasPrefix(ln, "internal/") || strings.HasPrefix(ln, "sync.") || strings.HasPrefix(ln, "created by") {
			continue
		}
		if strings.HasPrefix(ln, "dst/") {
			return false, first + " @ " + ln
		}
		return true, first + " @ " + ln
	}
	return false, first
}

func cmdRun(args []string) {
	fs := flag.NewFlagSet("run", flag.ExitOnError)
	prop := fs.String("prop", "", "property id")
	tier := fs.String("tier", "quick", "quick|thorough")
	fs.Parse(args)
	if *prop == "" {
		die2("--prop is required")
	}
	if t := os.Getenv("VERIF_TIER"); t != "" && *tier == "" {
		*tier = t
	}
	seed := uint64(1)
	if v := os.Getenv("VERIF_SEED"); v != "" {
		n, err := strconv.ParseUint(v, 10, 64)
		if err != nil {
			die2("VERIF_SEED is not an integer: %q", v)
		}
		seed = n
	}
	start := time.Now()
	fmt.Printf("verifcheck: property=%s tier=%s VERIF_SEED=%d\n", *prop, *tier, seed)
	bin, memo := build(*prop, false)
	defer os.Remove(bin)
	if old, _ := filepath.Glob(filepath.Join(replaysDir(), *prop+"-*.json")); len(old) > 0 {
		for _, f := range old {
			os.Remove(f)
		}
	}
	tc := tierOf(*prop, *tier)
	buildS := time.Since(start).Seconds()

	// fan out
	par := 16
	if v := os.Getenv("VERIF_PAR"); v != "" {
		par, _ = strconv.Atoi(v)
	}
	var mu sync.Mutex
	var lines []RunLine
	var crashes []crashRec
	var fatal string
	curBin := bin
	runJobs := func(all []Job, chunk int) {
		var chunks [][]Job
		for f := 0; f < len(all); f += chunk {
			chunks = append(chunks, all[f:min(f+chunk, len(all))])
		}
		next := 0
		var wg sync.WaitGroup
		for p := 0; p < par; p++ {
			wg.Add(1)
			go func() {
				defer wg.Done()
				for {
					mu.Lock()
					if next >= len(chunks) || fatal != "" {
						mu.Unlock()
						return
					}
					jobs := append([]Job(nil), chunks[next]...)
					next++
					mu.Unlock()
					for len(jobs) > 0 {
						res := runWorker(curBin, *prop, jobs, 1, 3, 10*time.Minute)
						mu.Lock()
						lines = append(lines, res.lines...)
						if res.fatal != "" {
							fatal = res.fatal
						}
						mu.Unlock()
						if !res.died {
							break
						}
						// the process died: attribute to the in-flight job, continue after it
						done := map[int]bool{}
						for _, l := range res.lines {
							done[l.Job] = true
						}
						var rest []Job
						var inflight *Job
						for i := range jobs {
							if jobs[i].ID == res.inflight {
								inflight = &jobs[i]
							} else if !done[jobs[i].ID] {
								rest = append(rest, jobs[i])
							}
						}
						mu.Lock()
						if inflight != nil {
							crashes = append(crashes, crashRec{*inflight, res.stderr, curBin})
						} else if res.fatal == "" {
							fatal = "worker died with no job in flight:\n" + res.stderr
						}
						mu.Unlock()
						if inflight == nil {
							break
						}
						jobs = rest
					}
				}
			}()
		}
		wg.Wait()
	}
	kinds := enumKinds[*prop]
	enumStats := map[string]int{}
	if kinds == nil {
		var all []Job
		for r := 0; r < tc.runs; r++ {
			all = append(all, Job{ID: r, Seed: seed, Run: r})
		}
		chunk := 20
		if freshProcessPerRun[*prop] {
			chunk = 1
		}
		runJobs(all, chunk)
	} else {
		// fault enumeration: reference runs first, then one run per (position, kind)
		nref := max(2, tc.runs/25)
		budget := tc.runs * 5
		if againKinds[*prop] != nil {
			budget = tc.runs * 7
		}
		var refs []Job
		for r := 0; r < nref; r++ {
			refs = append(refs, Job{ID: r, Seed: seed, Run: r, Ref: true})
		}
		runJobs(refs, 2)
		sort.Slice(lines, func(i, j int) bool { return lines[i].Job < lines[j].Job })
		var variants []Job
		id := nref
		for _, l := range lines {
			if l.Violation != "" || l.Interactions == "" {
				continue
			}
			var vs []Job
			for pos := 0; pos < len(l.Interactions); pos++ {
				for _, k := range kinds[l.Interactions[pos]] {
					vs = append(vs, Job{ID: id, Seed: seed, Run: l.Run, Pos: pos, Kind: k})
					id++
					if l.Interactions[pos] == 'A' && againKinds[*prop][k] {
						// the same fault twice in a row: at this position and at the next
						// request of the same method and path
						vs = append(vs, Job{ID: id, Seed: seed, Run: l.Run, Pos: pos, Kind: k + "+again"})
						id++
						enumStats["twice_in_a_row_variants"]++
					}
				}
			}
			if len(variants)+len(vs) > budget {
				enumStats["scenarios_not_enumerated_for_budget"]++
				continue
			}
			variants = append(variants, vs...)
			enumStats["scenarios_enumerated_completely"]++
			enumStats["positions"] += len(l.Interactions)
		}
		enumStats["reference_runs"] = nref
		enumStats["single_fault_variants"] = len(variants)
		runJobs(variants, 12)
		// on top: random multi-fault runs (no plan)
		var random []Job
		for r := 0; r < tc.runs/2; r++ {
			random = append(random, Job{ID: id, Seed: seed, Run: 100000 + r})
			id++
		}
		enumStats["random_multi_fault_runs"] = len(random)
		runJobs(random, 20)
	}
	raceBin := ""
	if raceProps[*prop] && fatal == "" {
		// the same scenarios under the race detector (the schedule is still the simulator's)
		t0 := time.Now()
		raceBin, _ = build(*prop, true)
		raceBins[raceBin] = true
		defer os.Remove(raceBin)
		buildS += time.Since(t0).Seconds()
		n := max(64, tc.runs/4)
		var jobs []Job
		for r := 0; r < n; r++ {
			jobs = append(jobs, Job{ID: 1000000 + r, Seed: seed, Run: 500000 + r})
		}
		enumStats["race_detector_runs"] = n
		curBin = raceBin
		runJobs(jobs, 1)
		curBin = bin
	}
	if fatal != "" {
		die2("harness failure: %s", fatal)
	}
	sort.Slice(lines, func(i, j int) bool { return lines[i].Job < lines[j].Job })
	binOf := func(race bool) string {
		if race {
			return raceBin
		}
		return bin
	}

	findings := loadFindings()
	tree := repoTree()
	var violations []string
	knownSeen := map[string]int{}
	newViol := 0
	confirmedCrashes := 0

	// process crashes: re-run alone to confirm
	for _, c := range crashes {
		j := c.job
		res := runWorker(c.bin, *prop, []Job{j}, 1, 0, 5*time.Minute)
		if !res.died {
			die2("harness failure: worker died on run %d but the run completes when executed alone (nondeterministic crash)\n%s", j.Run, c.stderr)
		}
		isViol, what := classifyCrash(res.stderr)
		if !isViol {
			die2("harness failure: worker process crashed inside the simulator on run %d: %s\n%s", j.Run, what, res.stderr)
		}
		confirmedCrashes++
		l := RunLine{Run: j.Run, Job: j.ID, Prop: *prop, Class: "process-crash", Violation: what, Sig: map[string]string{}}
		if f := matchFinding(findings, &l); f != nil {
			knownSeen[f.What]++
			continue
		}
		rp := Replay{Property: *prop, Class: "process-crash", Detail: what, Seed: seed, Run: j.Run, RepoTree: tree, Crash: res.stderr, Race: raceBins[c.bin]}
		path := filepath.Join(replaysDir(), fmt.Sprintf("%s-%d-%d.json", *prop, seed, j.Run))
		b, _ := json.MarshalIndent(rp, "", " ")
		os.MkdirAll(filepath.Dir(path), 0o755)
		os.WriteFile(path, b, 0o644)
		violations = append(violations, fmt.Sprintf("VIOLATION property=%s replay=%s", *prop, path))
		fmt.Printf("  property=%s class=process-crash: the worker process died on run %d: %.300s\n", *prop, j.Run, what)
		newViol++
	}

	// violations: confirm by replay, minimise, match against known findings
	byClass := map[string][]*RunLine{}
	var classOrder []string
	for i := range lines {
		l := &lines[i]
		if l.Violation == "" {
			continue
		}
		if l.Prop == "HARNESS" {
			die2("harness inconsistency on run %d: %s", l.Run, l.Violation)
		}
		key := l.Prop + "/" + l.Class + "/" + sigKey(l.Sig)
		if _, ok := byClass[key]; !ok {
			classOrder = append(classOrder, key)
		}
		byClass[key] = append(byClass[key], l)
	}
	budgetRuns := 0
	for i := range lines {
		if lines[i].Budget != "" {
			budgetRuns++
		}
		for k := range lines[i].Known {
			knownSeen[k]++
		}
	}
	minimised := 0
	for _, key := range classOrder {
		ls := byClass[key]
		l := ls[0]
		if f := matchFinding(findings, l); f != nil {
			knownSeen[fmt.Sprintf("property=%s %s", f.Property, f.What)] += len(ls)
			continue
		}
		// confirm: same seed/run in a fresh process must reproduce class, step and log hash
		conf := runWorker(binOf(l.Race), *prop, []Job{{ID: 0, Seed: seed, Run: l.Run, Full: true, Pos: l.Pos, Kind: l.Kind, Ref: l.Interactions != "" && l.Kind == ""}}, 1, 0, 5*time.Minute)
		if conf.died || len(conf.lines) != 1 {
			die2("harness failure: replay of run %d died\n%s", l.Run, conf.stderr)
		}
		c := conf.lines[0]
		if c.Class != l.Class || c.VStep != l.VStep || c.LogHash != l.LogHash {
			// The run gave another result alone in a fresh process than in its batch. If two
			// fresh processes agree with each other, the run itself is repeatable and what
			// differed is state the code under test kept in the worker process from earlier,
			// unrelated runs (package-level caches keyed by names or UIDs that recur between
			// runs - nothing a run's own history accounts for). The run on its own is then
			// what counts: its violation, if it has one, is reported and replayable; if it has
			// none, nothing is reported for it. Anything else is a simulator that does not
			// repeat, and nothing it says is believed.
			conf2 := runWorker(binOf(l.Race), *prop, []Job{{ID: 0, Seed: seed, Run: l.Run, Full: true, Pos: l.Pos, Kind: l.Kind, Ref: l.Interactions != "" && l.Kind == ""}}, 1, 0, 5*time.Minute)
			if conf2.died || len(conf2.lines) != 1 || conf2.lines[0].Class != c.Class || conf2.lines[0].VStep != c.VStep || conf2.lines[0].LogHash != c.LogHash {
				die2("replay divergence on run %d: first %s step=%d log=%s, replay %s step=%d log=%s — the simulator is not deterministic; nothing it reports is believed",
					l.Run, l.Class, l.VStep, l.LogHash, c.Class, c.VStep, c.LogHash)
			}
			enumStats["results_that_depended_on_earlier_runs_in_the_worker_process"]++
			fmt.Printf("NOTE: run %d gave class=%s only after other runs in the same worker process; alone (two fresh processes agree) it gives class=%q - process-global state of the code under test is carried between runs; the run on its own is what is judged\n", l.Run, l.Class, c.Class)
			if c.Violation == "" {
				continue
			}
			if f := matchFinding(findings, &c); f != nil {
				knownSeen[fmt.Sprintf("property=%s %s", f.Property, f.What)]++
				continue
			}
			c.Pos, c.Kind, c.Race, c.Interactions = l.Pos, l.Kind, l.Race, l.Interactions
			l = &c
		}
		best := c
		bestTape := c.Tape
		if remaining := tc.minimise; remaining > 0 && minimised < 6 {
			bestTape, best = minimise(binOf(l.Race), *prop, seed, l.Run, c, remaining)
			best.Pos, best.Kind = l.Pos, l.Kind
			minimised++
		}
		rp := Replay{Property: l.Prop, Class: best.Class, Step: best.VStep, Detail: best.Violation, Seed: seed, Run: l.Run, FaultPos: l.Pos, FaultKind: l.Kind,
			Tape: bestTape, OrigLen: len(c.Tape), LogHash: best.LogHash, Cfg: best.Cfg, Sig: best.Sig, Log: best.Log, RepoTree: tree, Race: l.Race}
		path := filepath.Join(replaysDir(), fmt.Sprintf("%s-%d-%d.json", *prop, seed, l.Run))
		if l.Kind != "" {
			path = filepath.Join(replaysDir(), fmt.Sprintf("%s-%d-%d-%s@%d.json", *prop, seed, l.Run, l.Kind, l.Pos))
		}
		b, _ := json.MarshalIndent(rp, "", " ")
		os.MkdirAll(filepath.Dir(path), 0o755)
		os.WriteFile(path, b, 0o644)
		violations = append(violations, fmt.Sprintf("VIOLATION property=%s replay=%s", l.Prop, path))
		fmt.Printf("  %.300s (%d runs, first run %d)\n", best.Violation, len(ls), l.Run)
		newViol++
	}

	writeEvidence(*prop, *tier, seed, lines, tc, start, buildS, memo, knownSeen, newViol, confirmedCrashes, budgetRuns, par, enumStats)

	var known []string
	for k, n := range knownSeen {
		known = append(known, fmt.Sprintf("KNOWN-FINDING: %s (seen in %d runs)", k, n))
	}
	sort.Strings(known)
	for _, k := range known {
		fmt.Println(k)
	}
	for _, v := range violations {
		fmt.Println(v)
	}
	fmt.Printf("verifcheck: %d runs, %d violating classes new, %d known, wall %.1fs\n", len(lines), newViol, len(knownSeen), time.Since(start).Seconds())
	if newViol > 0 {
		os.Exit(1)
	}
}

// knownFile: the known-findings list the simulator suppresses in-run; a replay shows
// the recorded violation whether or not it is listed
var ignoreKnown bool

func knownFile() string {
	if ignoreKnown {
		return os.DevNull
	}
	return filepath.Join(verifDir, "known_findings.json")
}

// replaysDir: /verif/replays, or a private directory for tagged (development) invocations
func replaysDir() string {
	if t := os.Getenv("VERIF_TAG"); t != "" {
		return filepath.Join(verifDir, "build", "replays"+t)
	}
	return filepath.Join(verifDir, "replays")
}

// evidenceDir: /verif/evidence, or a private directory for tagged (development) invocations
func evidenceDir() string {
	if t := os.Getenv("VERIF_TAG"); t != "" {
		return filepath.Join(verifDir, "build", "evidence"+t)
	}
	return filepath.Join(verifDir, "evidence")
}

func sigKey(m map[string]string) string {
	ks := make([]string, 0, len(m))
	for k := range m {
		ks = append(ks, k)
	}
	sort.Strings(ks)
	var b strings.Builder
	for _, k := range ks {
		fmt.Fprintf(&b, "%s=%s ", k, m[k])
	}
	return strings.TrimSpace(b.String())
}

// minimise shrinks the tape while the same violation class persists.
func minimise(bin, prop string, seed uint64, run int, orig RunLine, budget time.Duration) ([]uint32, RunLine) {
	deadline := time.Now().Add(budget)
	best := orig
	tape := append([]uint32(nil), orig.Tape...)
	try := func(cands [][]uint32) (int, RunLine) {
		// run candidates in parallel batches; return the index of the first that reproduces
		var jobs []Job
		for i, c := range cands {
			jobs = append(jobs, Job{ID: i, Seed: seed, Run: run, Tape: c, Full: true, Pos: orig.Pos, Kind: orig.Kind})
		}
		type r struct {
			i int
			l RunLine
		}
		results := make([]*RunLine, len(cands))
		var wg sync.WaitGroup
		sem := make(chan struct{}, 16)
		for i := range jobs {
			wg.Add(1)
			sem <- struct{}{}
			go func(i int) {
				defer wg.Done()
				defer func() { <-sem }()
				res := runWorker(bin, prop, []Job{jobs[i]}, 1, 0, 3*time.Minute)
				if !res.died && len(res.lines) == 1 {
					results[i] = &res.lines[0]
				}
			}(i)
		}
		wg.Wait()
		for i, l := range results {
			if l != nil && l.Class == orig.Class && l.Prop == orig.Prop && (orig.Class != "data-race" || sigKey(l.Sig) == sigKey(orig.Sig)) {
				return i, *l
			}
		}
		return -1, RunLine{}
	}
	// 1. shortest reproducing prefix (values past the end read as 0)
	for time.Now().Before(deadline) && len(tape) > 1 {
		var cands [][]uint32
		for _, frac := range []int{8, 4, 2} {
			n := len(tape) - len(tape)/frac
			if n < len(tape) && n > 0 {
				cands = append(cands, append([]uint32(nil), tape[:n]...))
			}
		}
		// prefer the shortest
		sort.Slice(cands, func(i, j int) bool { return len(cands[i]) < len(cands[j]) })
		i, l := try(cands)
		if i < 0 {
			break
		}
		tape = trimTape(cands[i], l.TapeLen)
		best = l
	}
	// 2. zero chunks (turn faults / reorderings back into defaults)
	for size := max(1, len(tape)/4); size >= 1 && time.Now().Before(deadline); size /= 2 {
		progress := true
		for progress && time.Now().Before(deadline) {
			progress = false
			var cands [][]uint32
			var offs []int
			for off := 0; off < len(tape); off += size {
				nz := false
				for k := off; k < min(off+size, len(tape)); k++ {
					if tape[k] != 0 {
						nz = true
					}
				}
				if !nz {
					continue
				}
				c := append([]uint32(nil), tape...)
				for k := off; k < min(off+size, len(c)); k++ {
					c[k] = 0
				}
				cands = append(cands, c)
				offs = append(offs, off)
				if len(cands) >= 32 {
					break
				}
			}
			if len(cands) == 0 {
				break
			}
			i, l := try(cands)
			if i >= 0 {
				tape = trimTape(cands[i], l.TapeLen)
				best = l
				progress = true
			}
		}
		if size == 1 {
			break
		}
	}
	best.Tape = tape
	return tape, best
}

func trimTape(t []uint32, used int) []uint32 {
	if used < len(t) {
		t = t[:used]
	}
	for len(t) > 0 && t[len(t)-1] == 0 {
		t = t[:len(t)-1]
	}
	return t
}

// ---------------------------------------------------------------------------
// evidence

var realStub = map[string][]string{
	"real": {
		"metacontroller pkg/controller/{composite,decorator,common,common/customize,common/finalizer}", "pkg/dynamic/{apply,clientset,controllerref,discovery,informer,object}",
		"pkg/hooks (webhook executors, ETag cache)", "pkg/client/generated (ControllerRevision clientset, informer, lister)", "pkg/third_party/kubernetes",
		"client-go REST client, dynamic client, discovery client, reflector, DeltaFIFO, shared informers, workqueue + rate limiters, retry", "apimachinery wait/backoff, zcache, net/http client",
	},
	"stub": {
		"Kubernetes API server + etcd (in-process model, DESIGN.md §3)", "garbage collector and other cluster actors (environment operations)", "webhook servers (pure hook programs)",
		"controller-runtime manager (sequential Reconcile driver with per-item back-off, panics recovered)", "controller-runtime client.Client (Get served from the store)", "event recorder (no-op)", "server-side apply merge (simplified)",
	},
}

func writeEvidence(prop, tier string, seed uint64, lines []RunLine, tc tierCfg, start time.Time, buildS float64, memo string, known map[string]int, newViol, crashes, budgetRuns, par int, enumStats map[string]int) {
	distinctLogs := map[string]bool{}
	nontrivial := map[string]bool{}
	states := map[string]bool{}
	faults := map[string]int{}
	probes := map[string]int{}
	cfgs := map[string]map[string]int{}
	var steps int
	var simS float64
	var samples []interface{}
	for i := range lines {
		l := &lines[i]
		distinctLogs[l.LogHash] = true
		states[l.StateHash] = true
		if l.Writes > 0 || l.Hooks > 0 || (prop == "C18" && l.Reqs > 0) {
			nontrivial[l.LogHash] = true
		}
		steps += l.Steps
		simS += l.Sim
		for k, v := range l.Faults {
			faults[k] += v
		}
		for k, v := range l.Probes {
			probes[k] += v
		}
		for k, v := range l.Cfg {
			if cfgs[k] == nil {
				cfgs[k] = map[string]int{}
			}
			if len(cfgs[k]) < 24 {
				cfgs[k][v]++
			}
		}
		if len(l.Sample) > 0 && len(samples) < 3 {
			samples = append(samples, map[string]interface{}{"run": l.Run, "cfg": l.Cfg, "steps": l.Steps, "event_log_head": l.Sample})
		}
	}
	if len(samples) == 0 {
		samples = append(samples, "no run produced a sample")
	}
	wall := time.Since(start).Seconds()
	level := levelOf(prop)
	ev := map[string]interface{}{
		"property_id": prop, "tier": tier, "seed": seed, "level": level, "wall_s": wall, "violations": newViol,
		"coverage": map[string]interface{}{
			"evaluations":             len(lines),
			"distinct_nontrivial":     len(nontrivial),
			"rule":                    "one evaluation = one simulated run (seeded scenario + schedule + faults); distinct = distinct hash of the kernel event log (every decision, request signature, answer, watch frame) plus final store; non-trivial = metacontroller made at least one hook call or applied write in the run (C18, whose system under test is the informer factory alone: at least one LIST/WATCH request)",
			"samples":                 samples,
			"distinct_event_logs":     len(distinctLogs),
			"distinct_final_states":   len(states),
			"kernel_steps":            steps,
			"simulated_seconds":       simS,
			"runs_per_hour":           float64(len(lines)) / (wall - buildS + 0.001) * 3600,
			"faults_fired":            faults,
			"probes":                  probes,
			"swarm_configuration_use": cfgs,
			"known_findings_seen":     known,
			"process_crashes":         crashes,
			"runs_out_of_step_budget": budgetRuns,
			"workers":                 par,
			"components":              realStub,
			"ssa_memo_reset":          memo,
			"build_seconds":           buildS,
			"fault_enumeration":       enumStats,
		},
		"assumptions": []string{
			"the in-process API server model follows the rules in DESIGN.md §3",
			"sampling, not enumeration: a clean batch is evidence, not proof",
			"between two transport seams a sync runs atomically (GOMAXPROCS=1 inside a run)",
		},
	}
	b, _ := json.MarshalIndent(ev, "", " ")
	os.MkdirAll(evidenceDir(), 0o755)
	if err := os.WriteFile(filepath.Join(evidenceDir(), prop+".json"), b, 0o644); err != nil {
		die2("cannot write evidence: %v", err)
	}
}

func levelOf(prop string) string {
	switch prop {
	case "C09", "C12":
		return "fault_enumeration"
	}
	return "exploration"
}

// ---------------------------------------------------------------------------

func cmdReplay(args []string) {
	if len(args) != 1 {
		die2("usage: verifcheck replay <file>")
	}
	b, err := os.ReadFile(args[0])
	if err != nil {
		die2("%v", err)
	}
	var rp Replay
	if err := json.Unmarshal(b, &rp); err != nil {
		die2("bad replay file: %v", err)
	}
	ignoreKnown = true
	bin, _ := build("replay-"+rp.Property, rp.Race)
	raceBins[bin] = rp.Race
	defer os.Remove(bin)
	job := Job{ID: 0, Seed: rp.Seed, Run: rp.Run, Tape: rp.Tape, Full: true, Pos: rp.FaultPos, Kind: rp.FaultKind}
	if rp.Class == "process-crash" {
		job.Tape = nil
	}
	res := runWorker(bin, rp.Property, []Job{job}, 1, 0, 5*time.Minute)
	if rp.Class == "process-crash" {
		if res.died {
			_, what := classifyCrash(res.stderr)
			fmt.Printf("REPRODUCED property=%s class=process-crash: %s\n", rp.Property, what)
			os.Exit(1)
		}
		fmt.Println("not reproduced: the run completes")
		os.Exit(0)
	}
	if res.died || len(res.lines) != 1 {
		die2("replay died:\n%s", res.stderr)
	}
	l := res.lines[0]
	if l.Violation == "" {
		fmt.Println("not reproduced: the property held on this replay")
		os.Exit(0)
	}
	same := l.Class == rp.Class && l.VStep == rp.Step && l.LogHash == rp.LogHash
	fmt.Printf("REPRODUCED property=%s class=%s step=%d identical_to_recording=%v\n  %s\n", l.Prop, l.Class, l.VStep, same, l.Violation)
	if os.Getenv("VERIF_SHOW_LOG") != "" {
		for _, x := range l.Log {
			fmt.Println(x)
		}
	}
	os.Exit(1)
}

func cmdSelftest(args []string) {
	fs := flag.NewFlagSet("selftest", flag.ExitOnError)
	props := fs.String("props", "C01", "comma-separated properties")
	seeds := fs.Int("seeds", 40, "seeds per property")
	reps := fs.Int("reps", 3, "repetitions per GOMAXPROCS value")
	race := fs.Bool("race", false, "use the -race build of the worker")
	fs.Parse(args)
	bad := 0
	for _, prop := range strings.Split(*props, ",") {
		bin, _ := build("selftest-"+prop, *race)
		raceBins[bin] = *race
		type key struct{ run int }
		ref := map[int]string{}
		var mu sync.Mutex
		var wg sync.WaitGroup
		sem := make(chan struct{}, 16)
		total := 0
		// GOMAXPROCS is 1 inside every run by design (parallelism is across worker
		// processes); what varies here is how many processes compete for the machine.
		for _, load := range []int{1, 4, 16} {
			procs := 1
			sem = make(chan struct{}, load)
			for rep := 0; rep < *reps; rep++ {
				for r := 0; r < *seeds; r += 5 {
					wg.Add(1)
					sem <- struct{}{}
					go func(procs, from int) {
						defer wg.Done()
						defer func() { <-sem }()
						var jobs []Job
						for x := from; x < min(from+5, *seeds); x++ {
							jobs = append(jobs, Job{ID: x, Seed: 7, Run: x})
						}
						res := runWorker(bin, prop, jobs, procs, 0, 10*time.Minute)
						mu.Lock()
						defer mu.Unlock()
						if res.died {
							fmt.Printf("selftest %s: worker died (procs=%d from=%d)\n%s\n", prop, procs, from, res.stderr)
							bad++
							return
						}
						for _, l := range res.lines {
							total++
							h := l.LogHash + "/" + l.Class + "/" + strconv.Itoa(l.Steps)
							if prev, ok := ref[l.Run]; ok && prev != h {
								fmt.Printf("selftest %s: run %d diverged: %s vs %s (procs=%d)\n", prop, l.Run, prev, h, procs)
								bad++
							} else {
								ref[l.Run] = h
							}
						}
					}(procs, r)
				}
			}
			wg.Wait()
		}
		wg.Wait()
		os.Remove(bin)
		fmt.Printf("selftest %s: %d executions of %d seeds, divergences so far: %d\n", prop, total, *seeds, bad)
	}
	if bad > 0 {
		os.Exit(2)
	}
}

func main() {
	if v := os.Getenv("VERIF_DIR"); v != "" {
		verifDir = v
	}
	if len(os.Args) < 2 {
		die2("usage: verifcheck run|replay|selftest ...")
	}
	switch os.Args[1] {
	case "run":
		cmdRun(os.Args[2:])
	case "replay":
		cmdReplay(os.Args[2:])
	case "selftest":
		cmdSelftest(os.Args[2:])
	default:
		die2("unknown command %q", os.Args[1])
	}
}
