package main

import (
	"bytes"
	"encoding/json"
	"fmt"
	"go/ast"
	"go/parser"
	"go/printer"
	"go/token"
	"os"
	"path/filepath"
	"strings"
)

// yieldPackages: packages of /repo whose lock boundaries get a yield point. The
// simulator's kernel decides (from the run's seed) at which of them the running
// goroutine hands the processor to the others, which opens, reproducibly, the
// windows between two critical sections that plain cooperative scheduling never
// opens (a stretch of code without a transport seam runs atomically otherwise).
var yieldPackages = []string{"pkg/dynamic/informer", "pkg/controller/common/customize", "pkg/hooks", "pkg/dynamic/discovery", "pkg/controller/common"}

// instrumentedOverlay writes instrumented copies of the non-test sources of
// yieldPackages (as they are in /repo's working tree right now) under build/ and
// returns an overlay file that is the GOROOT overlay plus those copies.
func instrumentedOverlay(tag string) string {
	base := ensureOverlay()
	var ov struct {
		Replace map[string]string `json:"Replace"`
	}
	b, err := os.ReadFile(base)
	if err != nil || json.Unmarshal(b, &ov) != nil {
		die2("cannot read %s", base)
	}
	outDir := filepath.Join(verifDir, "build", "yield."+tag)
	os.RemoveAll(outDir)
	repo := "/repo"
	if alt := os.Getenv("VERIF_REPO"); alt != "" {
		repo = alt
	}
	n := 0
	for _, pkg := range yieldPackages {
		files, _ := filepath.Glob(filepath.Join(repo, pkg, "*.go"))
		for _, f := range files {
			if strings.HasSuffix(f, "_test.go") {
				continue
			}
			src, err := os.ReadFile(f)
			if err != nil {
				die2("%v", err)
			}
			out, points, err := insertYields(f, src)
			if err != nil {
				// a file this rewriter cannot handle is left as it is: fewer yield points, nothing else
				continue
			}
			if points == 0 {
				continue
			}
			dst := filepath.Join(outDir, pkg, filepath.Base(f))
			os.MkdirAll(filepath.Dir(dst), 0o755)
			if err := os.WriteFile(dst, out, 0o644); err != nil {
				die2("%v", err)
			}
			ov.Replace[f] = dst
			n += points
		}
	}
	path := filepath.Join(verifDir, "build", "overlay."+tag+".json")
	ob, _ := json.MarshalIndent(ov, "", " ")
	if err := os.WriteFile(path, ob, 0o644); err != nil {
		die2("%v", err)
	}
	yieldPoints = n
	return path
}

var yieldPoints int

func isLockCall(e ast.Expr, names ...string) bool {
	call, ok := e.(*ast.CallExpr)
	if !ok || len(call.Args) != 0 {
		return false
	}
	sel, ok := call.Fun.(*ast.SelectorExpr)
	if !ok {
		return false
	}
	for _, n := range names {
		if sel.Sel.Name == n {
			return true
		}
	}
	return false
}

func yieldStmt() ast.Stmt {
	return &ast.ExprStmt{X: &ast.CallExpr{Fun: &ast.SelectorExpr{X: ast.NewIdent("simyield"), Sel: ast.NewIdent("Point")}}}
}

// insertYields puts `simyield.Point()` before every `x.Lock()` / `x.RLock()`
// statement and after every `x.Unlock()` / `x.RUnlock()` statement (deferred ones included).
func insertYields(name string, src []byte) ([]byte, int, error) {
	fset := token.NewFileSet()
	file, err := parser.ParseFile(fset, name, src, parser.ParseComments)
	if err != nil {
		return nil, 0, err
	}
	points := 0
	var rewrite func(list []ast.Stmt) []ast.Stmt
	rewrite = func(list []ast.Stmt) []ast.Stmt {
		var out []ast.Stmt
		for _, st := range list {
			if es, ok := st.(*ast.ExprStmt); ok {
				switch {
				case isLockCall(es.X, "Lock", "RLock"):
					out = append(out, yieldStmt(), st)
					points++
					continue
				case isLockCall(es.X, "Unlock", "RUnlock"):
					out = append(out, st, yieldStmt())
					points++
					continue
				}
			}
			if ds, ok := st.(*ast.DeferStmt); ok && isLockCall(ds.Call, "Unlock", "RUnlock") {
				// defer x.Unlock()  ->  defer func() { x.Unlock(); simyield.Point() }()
				body := &ast.BlockStmt{List: []ast.Stmt{&ast.ExprStmt{X: ds.Call}, yieldStmt()}}
				out = append(out, &ast.DeferStmt{Call: &ast.CallExpr{Fun: &ast.FuncLit{Type: &ast.FuncType{Params: &ast.FieldList{}}, Body: body}}})
				points++
				continue
			}
			out = append(out, st)
		}
		return out
	}
	ast.Inspect(file, func(n ast.Node) bool {
		switch x := n.(type) {
		case *ast.BlockStmt:
			x.List = rewrite(x.List)
		case *ast.CaseClause:
			x.Body = rewrite(x.Body)
		case *ast.CommClause:
			x.Body = rewrite(x.Body)
		}
		return true
	})
	if points == 0 {
		return src, 0, nil
	}
	// add the import
	imp := &ast.ImportSpec{Name: ast.NewIdent("simyield"), Path: &ast.BasicLit{Kind: token.STRING, Value: `"dst/simyield"`}}
	added := false
	for _, d := range file.Decls {
		if gd, ok := d.(*ast.GenDecl); ok && gd.Tok == token.IMPORT {
			gd.Specs = append(gd.Specs, imp)
			if !gd.Lparen.IsValid() {
				gd.Lparen = gd.Pos()
				gd.Rparen = gd.End()
			}
			added = true
			break
		}
	}
	if !added {
		file.Decls = append([]ast.Decl{&ast.GenDecl{Tok: token.IMPORT, Specs: []ast.Spec{imp}}}, file.Decls...)
	}
	var buf bytes.Buffer
	if err := (&printer.Config{Mode: printer.UseSpaces | printer.TabIndent, Tabwidth: 8}).Fprint(&buf, fset, file); err != nil {
		return nil, 0, err
	}
	if _, err := parser.ParseFile(token.NewFileSet(), name, buf.Bytes(), 0); err != nil {
		return nil, 0, fmt.Errorf("instrumented file does not parse: %w", err)
	}
	return buf.Bytes(), points, nil
}
