#!/bin/bash
# Offline setup: generate the GOROOT overlay, build the runner, warm the build cache.
set -e
cd /verif
export GOFLAGS=-mod=mod GOPROXY=off GOSUMDB=off GOTOOLCHAIN=local CGO_ENABLED=0
mkdir -p build bin evidence replays
python3 rt/gen.py
go1.26.8 build -o bin/verifcheck ./cmd/verifcheck
# warm the cache: patched std + k8s dependencies (first build is the slow one)
go1.26.8 test -c -o build/drivers.setup.test -overlay build/goroot/overlay.json -ldflags=-checklinkname=0 ./drivers
rm -f build/drivers.setup.test
echo "setup ok"
