#!/bin/bash
# usage: tools/confirm_seeded.sh [id ...]
# Confirms every seeded change in a scratch worktree of /repo (outside /repo and /verif):
# the patch applies to HEAD, the tree builds, the existing suite passes with it, and the
# demonstration fails with the change and passes without it. Writes the outcome into meta.json.
export GOFLAGS=-mod=mod GOPROXY=off GOSUMDB=off
wt=/tmp/confirm-wt${LANE:-}
git -C /repo worktree remove --force $wt 2>/dev/null
git -C /repo worktree add -q --detach $wt HEAD || exit 2
ids="$@"; [ -z "$ids" ] && ids=$(ls /verif/seeded)
for id in $ids; do
  d=/verif/seeded/$id
  [ -f $d/patch.diff ] || continue
  cd $wt; git checkout -q -- .; git clean -fdq
  ab=${id##*-}
  mkdir -p _out; cp $d/demo_test.go _out/$ab.demo_test.go 2>/dev/null
  demo=$(python3 -c "import json;print(json.load(open('$d/meta.json')).get('demo_cmd') or '')")
  applies=no; builds=no; suite=no; demo_with=na; demo_without=na
  if git apply --check $d/patch.diff 2>/dev/null; then
    applies=yes
    # without the change
    if [ -n "$demo" ]; then
      if bash -c "$demo" > /tmp/confirm.$id.without.log 2>&1; then demo_without=pass; else demo_without=fail; fi
      git clean -fdq -e _out   # the demonstration file, whatever it is called
    fi
    git apply $d/patch.diff
    if go build ./... > /tmp/confirm.$id.build.log 2>&1; then builds=yes; fi
    if go test -vet=off -count=1 ./... > /tmp/confirm.$id.suite.log 2>&1; then suite=pass; else suite=fail; fi
    if [ -n "$demo" ]; then
      if bash -c "$demo" > /tmp/confirm.$id.with.log 2>&1; then demo_with=pass; else demo_with=fail; fi
    fi
  fi
  python3 - "$d/meta.json" "$applies" "$builds" "$suite" "$demo_with" "$demo_without" <<'PY'
import json,sys
p,applies,builds,suite,dw,dwo=sys.argv[1:7]
m=json.load(open(p))
m["confirmed"]={"by":"tools/confirm_seeded.sh in a scratch worktree of /repo HEAD","patch_applies":applies,"builds":builds,
  "existing_suite_with_change":suite,"demo_with_change":dw,"demo_without_change":dwo,
  "ok": applies=="yes" and builds=="yes" and suite=="pass" and dw=="fail" and dwo=="pass"}
json.dump(m,open(p,"w"),indent=1)
print(p.split("/")[-2], m["confirmed"])
PY
  rm -f /tmp/confirm.$id.*.log.ok
done
cd /; git -C /repo worktree remove --force $wt
