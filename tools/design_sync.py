#!/usr/bin/env python3
"""Keeps DESIGN.md's per-property 'As built' lines equal to the MANIFEST texts and regenerates the §14 table."""
import json, re, subprocess
m = json.load(open('/verif/MANIFEST.json'))
text = {c['property_id']: c['level_claimed']['text'] for c in m['checks']}
p = '/verif/DESIGN.md'
lines = open(p).read().split('\n')
n = 0
for i, l in enumerate(lines):
    mo = re.match(r'^\*As built\* \(`sim/(c\d\d)\.go`; this is the text of the MANIFEST entry\): ', l)
    if mo:
        pid = mo.group(1).upper()
        lines[i] = mo.group(0) + text[pid]
        n += 1
open(p, 'w').write('\n'.join(lines))
print("as-built lines synced:", n)
subprocess.check_call(['python3', '/verif/tools/seeded_table.py'])
