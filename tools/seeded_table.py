#!/usr/bin/env python3
"""Regenerates the table of §14 in DESIGN.md from seeded/*/meta.json."""
import json, glob, re
rows = ["| id | change (file) | confirmed | caught by | first result → what was widened |", "|---|---|---|---|---|"]
for d in sorted(glob.glob('/verif/seeded/*')):
    m = json.load(open(d + '/meta.json'))
    files = ", ".join(f.split('/')[-1] for f in (m.get('files') or []))
    br = (m.get('breaks') or '').replace('\n', ' ').replace('|', '/')
    br = re.sub(r'^(In |pkg/\S+,? )', '', br)
    if len(br) > 150:
        br = br[:147] + '…'
    c = m.get('confirmed')
    ok = 'yes' if isinstance(c, dict) and c.get('ok') else ('no: %s' % json.dumps(c) if isinstance(c, dict) else 'agent only')
    by = ", ".join(m.get('detected_by') or []) or '**%s**' % m.get('verdict', 'missed')
    ran = (m.get('what_i_ran') or '').replace('|', '/').replace('tools/mutant.sh patch ', '')
    if len(ran) > 260:
        ran = ran[:257] + '…'
    rows.append("| %s | %s (%s) | %s | %s | %s |" % (d.split('/')[-1], br, files, ok, by, ran))
p = '/verif/DESIGN.md'
s = open(p).read()
a = s.index('<!-- seeded-table-begin -->') + len('<!-- seeded-table-begin -->')
b = s.index('<!-- seeded-table-end -->')
s = s[:a] + "\n" + "\n".join(rows) + "\n" + s[b:]
open(p, 'w').write(s)
print(len(rows) - 2, "rows")
