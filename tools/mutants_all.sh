#!/bin/bash
# usage: tools/mutants_all.sh [runs]  — regression over every kept seeded change: each must still be
# caught by (one of) the check(s) recorded in its meta.json
runs=${1:-600}
cd /verif
for d in seeded/*; do
  id=$(basename $d)
  by=$(python3 -c "import json;print(' '.join(json.load(open('$d/meta.json')).get('detected_by') or []))")
  [ -z "$by" ] && { echo "SKIP     $id (recorded as missed)"; continue; }
  ok=0
  for p in $by; do
    out=$(tools/mutant.sh /verif/$d/patch.diff $p $runs)
    echo "$out" | cut -c1-200
    echo "$out" | grep -q '^DETECTED' && { ok=1; break; }
  done
  [ $ok -eq 0 ] && echo "REGRESSION $id"
done
