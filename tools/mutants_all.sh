#!/bin/bash
# usage: tools/mutants_all.sh [runs]  — regression over every kept seeded change: each must still be
# caught by (one of) the check(s) recorded in its meta.json
runs=${1:-600}
cd /verif
# IDS="C01-A C02-B ..." restricts the regression to these (several lanes can run side by side)
list=$(ls -d seeded/*)
[ -n "$IDS" ] && list=$(for i in $IDS; do echo seeded/$i; done)
for d in $list; do
  id=$(basename $d)
  by=$(python3 -c "import json;print(' '.join(json.load(open('$d/meta.json')).get('detected_by') or []))")
  [ -z "$by" ] && { echo "SKIP     $id (recorded as missed)"; continue; }
  ok=0
  for p in $by; do
    r=$runs
    # sizes at which the rarer ones fall inside the quick tier's budget
    case $p in C03|C10|C13|C14|C19) r=$((runs*5));; C06|C02|C04|C16|C01|C20) r=$((runs*3));; esac
    out=$(tools/mutant.sh /verif/$d/patch.diff $p $r </dev/null)
    echo "$out" | cut -c1-200
    echo "$out" | grep -q '^DETECTED' && { ok=1; break; }
  done
  [ $ok -eq 0 ] && echo "REGRESSION $id"
done
