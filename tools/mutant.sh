#!/bin/bash
# usage: tools/mutant.sh <patch.diff (absolute path)> <prop> [runs] [seed]
# Applies a seeded change to a scratch worktree of /repo HEAD (outside /repo and /verif), runs one
# check against it (VERIF_REPO), removes the worktree. Prints DETECTED / MISSED.
# (The registered way - git -C /repo apply, run, git -C /repo checkout -- . - gives the same result;
# this variant leaves /repo alone so that other runs can go on meanwhile.)
patch=$1; prop=$2; runs=${3:-400}; seed=${4:-1}
wt=/tmp/mutwt.$$
git -C /repo worktree add -q --detach $wt HEAD || exit 2
if ! git -C $wt apply --check "$patch" 2>/dev/null; then echo "mutant.sh: patch does not apply: $patch"; git -C /repo worktree remove --force $wt; exit 2; fi
git -C $wt apply "$patch"
cd /verif
VERIF_REPO=$wt VERIF_TAG=.mut$$ VERIF_SEED=$seed VERIF_RUNS=$runs ./bin/verifcheck.fg run --prop $prop --tier quick > /tmp/mutant.$$.log 2>&1
rc=$?
git -C /repo worktree remove --force $wt
rm -f /verif/build/go.$prop.mut$$.mod /verif/build/go.$prop.mut$$.sum /verif/build/drivers.*mut$$*.test /verif/build/overlay.*mut$$.json; rm -rf /verif/build/replays.mut$$ /verif/build/evidence.mut$$ /verif/build/instr.*mut$$* 2>/dev/null
if [ $rc -eq 1 ]; then echo "DETECTED $prop $(basename $(dirname $patch))/$(basename $patch): $(grep -m1 'class=' /tmp/mutant.$$.log | cut -c1-260)";
elif [ $rc -eq 0 ]; then echo "MISSED   $prop $(basename $(dirname $patch))/$(basename $patch) ($(tail -1 /tmp/mutant.$$.log))";
else echo "ERROR rc=$rc $prop $patch"; tail -5 /tmp/mutant.$$.log; fi
rm -f /tmp/mutant.$$.log
