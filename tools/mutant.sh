#!/bin/bash
# usage: tools/mutant.sh <patch.diff> <prop> [runs] [seed]
# Applies a seeded change to /repo, runs one check, reverts. Prints DETECTED / MISSED.
patch=$1; prop=$2; runs=${3:-400}; seed=${4:-1}
cd /repo || exit 2
if ! git diff --quiet; then echo "mutant.sh: /repo has uncommitted changes"; exit 2; fi
if ! git apply --check "$patch" 2>/dev/null; then echo "mutant.sh: patch does not apply: $patch"; exit 2; fi
git apply "$patch"
cd /verif
VERIF_SEED=$seed VERIF_RUNS=$runs ./bin/verifcheck run --prop $prop --tier quick > /tmp/mutant.$$.log 2>&1
rc=$?
git -C /repo checkout -- . ; git -C /repo clean -fdq
if [ $rc -eq 1 ]; then echo "DETECTED $prop $(basename $(dirname $patch))/$(basename $patch): $(grep -m1 'class=' /tmp/mutant.$$.log | cut -c1-260)";
elif [ $rc -eq 0 ]; then echo "MISSED   $prop $(basename $(dirname $patch))/$(basename $patch) ($(tail -1 /tmp/mutant.$$.log))";
else echo "ERROR rc=$rc $prop $patch"; tail -5 /tmp/mutant.$$.log; fi
rm -f /tmp/mutant.$$.log
