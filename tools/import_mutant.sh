#!/bin/bash
# usage: [MUT_SRC=/tmp/mut2] tools/import_mutant.sh <PROP> <A|B|C|D> <detected-by "C02,C04"|none> "<what I ran / result>"
prop=$1; ab=$2; by=$3; ran=$4
src=${MUT_SRC:-/tmp/mut2}/$prop/_out
dst=/verif/seeded/$prop-$ab
mkdir -p $dst
cp $src/$ab.patch.diff $dst/patch.diff
cp $src/$ab.demo_test.go $dst/demo_test.go 2>/dev/null
python3 - "$src/$ab.meta.json" "$dst/meta.json" "$prop" "$by" "$ran" <<'PY'
import json,sys
src,dst,prop,by,ran=sys.argv[1:6]
try: m=json.load(open(src))
except Exception as e: m={"property":prop,"summary":"(agent meta unreadable: %s)"%e}
out={"property":prop,"breaks":m.get("summary"),"why_it_breaks":m.get("why_it_breaks"),"needs_to_manifest":m.get("needs_to_manifest"),
     "files":m.get("files"),"demo_cmd":m.get("demo_cmd"),"author":"independent sub-agent given only the property text and a scratch worktree",
     "confirmed":"agent only so far; run tools/confirm_seeded.sh",
     "detected_by":[] if by=="none" else by.split(","),"what_i_ran":ran}
json.dump(out,open(dst,'w'),indent=1)
PY
echo imported $dst
