#!/bin/bash
# usage: tools/thorough_all.sh <seed> [props...]  — runs the thorough tier of every check, one after another
seed=${1:-1}; shift
props="$@"; [ -z "$props" ] && props="C01 C02 C03 C04 C06 C07 C08 C09 C10 C11 C12 C13 C14 C18 C19 C20 C16 C17 C15"
cd /verif
mkdir -p build/thorough
for p in $props; do
  s=$(date +%s)
  VERIF_SEED=$seed bin/verifcheck run --prop $p --tier thorough > build/thorough/$p.seed$seed.log 2>&1
  rc=$?
  echo "$p seed=$seed rc=$rc wall=$(( $(date +%s) - s ))s $(tail -1 build/thorough/$p.seed$seed.log)" >> build/thorough/summary.log
done
