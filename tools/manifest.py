#!/usr/bin/env python3
"""Regenerates /verif/MANIFEST.json from the table below (single source of truth)."""
import json

NOTE = ("Trusted base: the in-process Kubernetes API-server model (DESIGN.md §3), the pure hook programs, "
        "go1.26.8 testing/synctest with a runtime overlay (map order, timer/select tie-breaks, sync nanotime, "
        "no time-slice preemption), GOMAXPROCS=1 and no GC inside a run. Sampling, not enumeration.")

CHECKS = {
 "C01": ("exploration", "§9 C01",
   "Seeded whole-system simulation of the real composite controller (informers, work queue, 1-3 workers, ControllerRevision client, hooks) against a simulated API server under eager, lagging and shuffled schedules with user edits mid-run; oracle: bounded-step quiescence without injected failures, then after a no-op poke no write for any child and no change in the store, and the last hook exchange equals the cluster (owned children = desired; desired fields contained for updating strategies).",
   "deterministic simulation, seeded schedule search, quiescence + convergence oracle"),
 "C02": ("exploration", "§9 C02",
   "Adversarial simulated runs (shuffled schedule, held-back watch streams, other writers deleting, re-creating under the same name, re-owning and relabelling children, a second parent with an overlapping selector, look-alike objects, 1-3 workers, both apply strategies); oracle over the request log: every accepted write on a child or ControllerRevision is judged against the object's state immediately before it (controlled by the syncing parent, else the adoption edit or a creation born with the controller reference); every DELETE sent carries the observed UID and background propagation.",
   "deterministic simulation with environment actors, request-log oracle on pre-state"),
 "C03": ("exploration", "§9 C03",
   "Simulated runs over namespaced/cluster parents x namespaced/cluster, core/grouped child kinds x generateSelector with owned, orphaned, foreign-owned, non-matching, other-namespace, being-deleted and undeclared-kind objects and lagging caches; every sync/finalize hook request is compared with the documented shape (one key per declared resource, Kind.apiVersion spelling, name vs namespace/name keys), each shown object must be byte-equal to the server's version at its resourceVersion and controlled (or just adopted) by the parent, and every object the parent controlled in all cache versions the sync could read must be shown; creations land in the parent's namespace.",
   "deterministic simulation, reconstructed informer-cache views, hook-request oracle"),
 "C04": ("exploration", "§9 C04",
   "Adversarial simulated runs (stale caches, parents deleted / replaced under the same name, orphans appearing, relabelling, two parents racing for one orphan, matchLabels/matchExpressions/generated selectors, hook answers with non-matching labels, empty selectors); every adoption / release PUT is judged: selector match and not-deleting in a cache version the sync could have read, a live GET of the parent with the same UID and no deletionTimestamp earlier in the same sync, body = pre-state +/- only our reference, foreign owner references never change; a rejected answer causes no write and is reported.",
   "deterministic simulation, per-sync reconstruction, cache-view-quantified oracle"),
 "C06": ("exploration", "§9 C06",
   "Scenarios built so the observed/desired relation is known by construction (equal, owned field drifted, owned field no longer desired, foreign field, status only, foreign label, pending deletion, owned-but-undesired, desired change) x every update method incl. unset and unknown x core/grouped kinds; decision-table oracle on the requests that follow (no write / DELETE with UID+background then POST and never PUT / PUT and never DELETE / error and no write) plus repaired end state.",
   "deterministic simulation, by-construction scenarios, decision-table oracle"),
 "C11": ("exploration", "§9 C11",
   "Simulated composite syncs with hook status shapes (null, {}, nested, own observedGeneration, own conditions), parents edited / replaced under the same name / deleted mid-sync, and 404/409/500/connection-error/applied-response-lost faults on every request of a sync; per sync that reached child reconciliation: live GET then no write or a PUT on /status whose body is that GET's object with only .status = hook status + observedGeneration of the parent sent to the hook, 409 retried against a fresh read, never written to another UID, attempted although child writes failed, nothing outside .status changed.",
   "deterministic simulation with API fault injection, per-sync request-sequence oracle"),
 "C07": ("exploration", "§9 C07",
   "Simulated rollouts (RollingInPlace/RollingRecreate, 1-4 children, default and custom revision field paths, status checks on type/status/reason or type/reason only, hooks with and without their own Updated condition, template / non-revisioned edits and scaling mid-rollout, children deleted or turned unhealthy at any step, lagging caches); per completed sync, reconstructed from hook requests, the ControllerRevisions in the cache before and the accepted revision writes: at most one child needing a real change moves to the latest revision and it is the first such child in the hook's order; a move happens only if every child already on the latest revision was healthy in some cache view of that sync; children are written towards the desired state of the revision that claims them (old revisions: the hook answer for the patched parent); old-revision requests carry only the revisioned fields from the revision; the Updated condition says complete / progressing / waiting.",
   "deterministic simulation, per-sync rollout reconstruction, cache-view-quantified oracle"),
 "C08": ("exploration", "§9 C08",
   "Bounded liveness under a fair environment (every child that is created or updated is reported healthy, no injected failure): after one or two template changes (with scale up/down or non-revisioned edits), under eager and shuffled schedules, the rollout must finish within a step budget, with every child containing the latest desired state, Updated=True, exactly one ControllerRevision left and a number of syncs linear in the number of children; safety half: no completed sync leaves a child waiting while every child on the latest revision was healthy in every cache view of that sync.",
   "deterministic simulation, bounded-liveness oracle after a fair environment"),
 "C09": ("fault_enumeration", "§9 C09",
   "For each generated rollout scenario a fault-free reference run records the sequence of in-sync interactions; then one run per (position, kind) injects a crash before the request is applied, a crash after it is applied (response lost), each API error kind (404, 409, 410, 422, 500, connection error, applied-response-lost) or a crash during a hook call at exactly that position. Oracles: in every sync all ControllerRevision writes precede every child create/delete/content update and a failed one stops the sync; at every restart no child is listed in two revisions and none is ahead of the revision that records it; after recovery the rollout reaches the same final state as the uninterrupted run.",
   "deterministic simulation, exhaustive single-fault / crash-point enumeration per scenario"),
 "C16": ("exploration", "§9 C16",
   "Simulated runs with 1-2 decorators sharing targets (with / without status subresource, own labels, annotations, status, spec, foreign finalizers), label / annotation selectors incl. expressions, decorate programs driven by the target (label and annotation maps with additions, overwrites and nulls; status null / set / different; finalized), target edits, deletion with every propagation policy and re-creation under the same name, attachments deleted, drifted, unmarked or made by someone else; every accepted write on a target is diffed against its pre-state: only label / annotation keys named in that sync's response (null = absent), .status unless the response's status is null, and the decorator's own finalizer may change; a sync whose requests change nothing is a violation; hook calls only for selected (or finalizer-carrying) objects; attachments shown, updated or deleted only with controller reference to the target and this decorator's marker.",
   "deterministic simulation, pre/post-state diff oracle per accepted write"),
 "C10": ("exploration", "§9 C10",
   "Simulated parent life cycles for composite (incl. several live revisions) and decorator controllers with a finalize hook: match / unmatch the controller's selector, delete with foreground / orphan / background propagation, delete while unmatched, finalize hook removed from / added to the controller object later (a real Stop/Start), teardown programs (all at once, step by step, finalized answers that depend on a revisioned field), 409/500/connection-error/response-lost faults on the finalizer add and remove requests, lagging caches. Temporal oracle over the whole history: the finalizer is on the parent (in the store) when a child is created for it; it is never added to a parent that was being deleted in every view of the sync; deleting or unmatched parents go to the finalize hook with finalizing:true (else sync hook, false); the finalizer is removed only after finalized:true from every live revision; an unfinalizable deleting parent (no hook, finalizer gone, GC finalizer) has no child written; a failed add stops the sync; at quiescence no leftover finalizer without a finalize hook and no selected live parent without it when one is configured.",
   "deterministic simulation with fault injection on finalizer requests, temporal history oracle"),
 "C12": ("fault_enumeration", "§9 C12",
   "For each generated composite / decorator scenario (initial cluster with orphans, stale and drifted children, then a parent edit, then a parent deletion) a fault-free reference run records every in-sync interaction; one run per (position, kind) injects exactly one failure there: API 404, 409 conflict, 409 already-exists, 410, 422, 500, connection error, applied-response-lost; hook 500, 429 with Retry-After, connection refused, stall past the timeout, truncated body. Oracle per single fault, classified from the request and its pre-state: non-benign failures of child writes, ControllerRevision writes, parent writes and hook calls are reported as a sync error and the item is re-queued; the documented benign races (404 on delete/update, already-exists on create, conflict on update) are not reported; a composite hook 429 is not an error and the parent is synced again; after a failed child write the sync still creates the other missing children and goes on to the parent status; in every run the worker finishes the sync, nothing panics, and after one further trigger the cluster equals the hook's desired state and stays quiet. On top: random multi-fault runs with watch breaks, 410-relists (tombstones), crashes and deletions during the gap.",
   "deterministic simulation, exhaustive single-fault enumeration per scenario + seeded multi-fault search"),
 "C13": ("exploration", "§9 C13",
   "Whole-system runs of composite (rolling and non-rolling, generateSelector on/off) and decorator controllers in which a share of the sync/finalize answers is the scenario's valid answer with one seeded grammar mutation: any status code, truncation at any byte, empty / non-JSON bodies, a flipped bit, null / scalar / incomplete entries in the children list, status missing / null / wrong type / hostile conditions, wrong types in a child's metadata, labels, annotations, ownerReferences, finalizers, kind, apiVersion, negative / huge / fractional / string numbers and flags, unknown fields, every JSON path replaced by every JSON type or deleted. Oracle: no worker panic (recovered panics are recorded through utilruntime.PanicHandlers, unrecovered ones kill the worker process and are attributed to the run), a rejection by construction (non-200, invalid JSON, wrong-typed labels) is reported as an error and followed by no child write in that sync, and after the hook returns to valid answers every live parent is synced again and the queues go quiet.",
   "deterministic simulation with corrupted-message fault injection (grammar + byte level)"),
 "C19": ("exploration", "§9 C19",
   "The real executors of pkg/hooks (plain / ETag with 3 s or 30 s cache TTL, strict / loose) run in the bubble against a scripted webhook; 1-3 client goroutines issue calls about 1-2 parents (shared cache key, different content) and the kernel interleaves, delays and ages their round trips (header enrichment, round trip and response adjustment of concurrent calls in every order). Scripted answers: 200 with / without ETag, 200+ETag with an unknown field, 304 / 412 with and without If-None-Match, 429 with numeric / date / absent / garbage Retry-After, other status codes, unknown and duplicate fields, truncated JSON, stall past the timeout, connection refused. Oracle per call: success iff 200 (or 304/412 answering a sent If-None-Match) with a decodable body that strict mode accepts; on 304/412 the decoded body is the one the script sent with exactly the ETag the request carried (or the call fails when a concurrent call replaced the cache entry meanwhile); 429 yields the advertised delay; everything else is an error; no call hangs or crashes the process.",
   "deterministic simulation of concurrent calls against a scripted peer, per-call reference oracle"),
 "C14": ("exploration", "§9 C14",
   "Composite (with controller label selector, customize rules, ignoreStatusChanges on/off, generateSelector, namespaced / cluster parents) and decorator controllers are brought to rest; then, round after round, exactly one change is made - parent spec / status-only / labels edit, edit of an unmanaged parent, owned child edited / status-changed / deleted, matching orphan created or relabelled into the selector, foreign-owned child, child whose owner reference has the right name but a wrong UID or kind, related object edited / relabelled away / deleted / unselected one edited, parent created, parent deleted; deletions also delivered only through a relist tombstone (watch broken, history compacted) - and the run continues to rest. Oracle per round from hook calls and work-queue add events: every parent the statement requires is synced (a deleted one at least queued), the parents it excludes are not, and the explicit negatives add nothing to the queue. Over-triggering beyond the statement is not flagged.",
   "deterministic simulation, one event per round, completeness/negative oracle on queue and hook activity"),
 "C15": ("exploration", "§9 C15",
   "Composite controllers with a customize hook whose rules are carried by the parent (label selectors incl. empty and expressions, namespace only, names only, both, invalid mixes, several rules per resource, foreign namespace) over related ConfigMaps, Secrets and cluster-scoped objects in three namespaces; related objects are edited, relabelled, deleted and created, rule sets replaced, customize calls fail, caches lag, and in a third of the runs the clock passes the 20-minute answer cache. Oracle: the related map of every sync/finalize request equals the selection computed from the parent's rules and the reconstructed cache views (shown objects byte-equal to the server version and selected in some view; objects selected in every view shown; documented keys), confined to the parent's namespace; invalid rule sets are reported and never reach the sync hook; the customize hook is not asked twice for one UID and generation within the cache lifetime unless the calls overlap.",
   "deterministic simulation, reference selection model over reconstructed cache views"),
 "C18": ("exploration", "§9 C18",
   "The real SharedInformerFactory runs over the simulated API server; a seeded sequence (4-12 operations over up to 12 subscriptions on two resources) of subscribe, add handler with / without its own resync period, remove handlers, close, object create / edit / delete and clock advances is applied, with the in-flight LIST / WATCH requests of the informers interleaved by the kernel. Reference model: an open-subscription count per resource and a handler set per subscription. Oracle: no WATCH stream is live for a resource once its last subscription closed; exactly one is live (when idle) while one is open; each handler gets everything that was cached when it was added, every frame delivered to the process while it is registered, and nothing after its subscription removed it - whatever the other subscribers do.",
   "deterministic simulation of an operation sequence against a reference model"),
 "C20": ("exploration", "§9 C20",
   "The two Metacontroller reconcilers run under a driver that plays controller-runtime's part (sequential Reconcile, per-item back-off, panics recovered); a CONFIG actor applies sequences of create / spec-changing update / no-op update / delete over one or two controller names, composite and decorator, with valid specs (incl. service+path webhooks and every ETag field combination) and unstartable ones (unknown parent / child resource, no hooks, webhook without url or service+path, parent CRD without status subresource), parents and children already in the cluster. Each spec version has its own hook URL, so instances are identifiable. After every operation and a probe edit of all parents: only the current version of a running controller answers, deleted or unstartable ones answer nothing and write nothing, the live WATCH streams are exactly those running controllers need (none left behind, none duplicated), a no-op update causes no LIST/WATCH, nothing panics.",
   "deterministic simulation of a configuration history, instance identification by hook URL"),
}

NA = {
 "C05": "pure function of three JSON values: no schedule, clock, fault, I/O or interleaving for a simulator to control (DESIGN.md §9 C05); its system-level consequences are exercised by C01/C06/C17",
}

props = [json.loads(l) for l in open('/verif/properties.jsonl')]
checks = []
for pid in sorted(CHECKS):
    level, ref, text, tech = CHECKS[pid]
    checks.append({
        "property_id": pid,
        "quick_cmd": "bin/verifcheck run --prop %s --tier quick" % pid,
        "thorough_cmd": "bin/verifcheck run --prop %s --tier thorough" % pid,
        "evidence_file": "/verif/evidence/%s.json" % pid,
        "replay_cmd_template": "bin/verifcheck replay {path}",
        "engine": "dst",
        "level_claimed": {"category": level, "text": text, "design_ref": ref},
        "level_note": NOTE,
        "technique": tech,
    })
na = []
for p in props:
    if p['id'] in CHECKS:
        continue
    na.append({"property_id": p['id'], "reason": NA.get(p['id'], "check not built yet in this framework (work in progress; DESIGN.md §9 has the planned oracle)")})
m = {
 "version": 1,
 "setup_cmd": "bash /verif/setup.sh",
 "hooks": {"guard": "none",
           "enable": "no source hooks: harness code lives in the /verif module (replace metacontroller => /repo); a GOROOT overlay and -ldflags=-checklinkname=0 are supplied at build time",
           "baseline_off_cmd": "cd /repo && go build ./... && go test -vet=off -count=1 ./...",
           "source_commits": [], "add_only": True},
 "engines": [{"name": "dst", "path": "/verif/sim", "serves_properties": sorted(CHECKS),
              "kind_free_text": "deterministic whole-system simulator with fault injection (synctest bubble, simulated API server and webhooks, seeded kernel, choice tape, replay + minimisation)"}],
 "checks": checks,
 "notes": "See DESIGN.md. Genuine defects found by the simulator are recorded in known_findings.json (repaired ones as 'fix:' commits in /repo, open ones printed as KNOWN-FINDING).",
 "not_applicable": na,
}
json.dump(m, open('/verif/MANIFEST.json', 'w'), indent=1)
print("MANIFEST.json:", len(checks), "checks,", len(na), "not claimed")
