#!/usr/bin/env python3
"""Generate the two patched GOROOT files and the -overlay JSON used by every
simulator build.

  runtime/alg.go   hash keys become constants (map hashing is process-independent)
  runtime/rand.go  rand(), rand32(), maps_rand() return the simulator-owned
                   variable runtime.simMapRand; cheaprand() runs on one global
                   state (runtime.simCheapRand) instead of per-M state, so
                   `select` tie-breaks do not depend on which M runs a goroutine.

Both variables are set per run by the harness through go:linkname
(-ldflags=-checklinkname=0).  The script fails loudly when an anchor line is
missing: a silently unpatched runtime would make every replay unreliable.
"""
import json, os, subprocess, sys

out = sys.argv[1] if len(sys.argv) > 1 else os.path.join(os.path.dirname(__file__), "..", "build", "goroot")
out = os.path.abspath(out)
goroot = subprocess.check_output(["go1.26.8", "env", "GOROOT"], env=dict(os.environ, GOTOOLCHAIN="local")).decode().strip()
os.makedirs(out, exist_ok=True)


def must_replace(src, old, new, count, what):
    n = src.count(old)
    if n != count:
        sys.exit("rt/gen.py: anchor %r found %d times in %s, expected %d" % (old, n, what, count))
    return src.replace(old, new)


alg = open(os.path.join(goroot, "src/runtime/alg.go")).read()
alg = must_replace(alg, "hashkey[i] = uintptr(bootstrapRand())",
                   "hashkey[i] = uintptr(0x9E3779B97F4A7C15 + uint64(i)*0x632BE59BD9B4E019)", 1, "alg.go")
alg = must_replace(alg, "key[i] = bootstrapRand()",
                   "key[i] = 0x9E3779B97F4A7C15 * uint64(2*i+1)", 1, "alg.go")
open(os.path.join(out, "alg.go"), "w").write(alg)

rnd = open(os.path.join(goroot, "src/runtime/rand.go")).read()
rnd = must_replace(rnd, "func rand32() uint32 {\n\treturn uint32(rand())\n}",
                   "func rand32() uint32 {\n\treturn uint32(simMapRand)\n}", 1, "rand.go")
rnd = must_replace(rnd, "func rand() uint64 {\n",
                   "func rand() uint64 {\n\tif simMapRandOn {\n\t\treturn simMapRand\n\t}\n", 1, "rand.go")
rnd = must_replace(rnd, "func maps_rand() uint64 {\n\treturn rand()\n}",
                   "func maps_rand() uint64 {\n\treturn simMapRand\n}", 1, "rand.go")
rnd += """

// simMapRand is what rand()/rand32()/maps_rand() return: map iteration offsets
// and every other runtime-provided random number are a function of this value,
// which the simulator harness sets per run (go:linkname).
var simMapRand uint64 = 0x5DEECE66D

// simCheapRand is the state of simRand32: the generator that orders bubbled
// timers with equal expiry (time.go) and select poll order inside a bubble
// (select.go). cheaprand itself is left alone: the scheduler and runtime locks
// call it at moments that depend on wall-clock timing.
var simCheapRand uint64 = 0x2545F4914F6CDD1D

//go:nosplit
func simRand32() uint32 {
	simCheapRand += 0xa0761d6478bd642f
	hi, lo := math.Mul64(simCheapRand, simCheapRand^0xe7037ed1a0b428db)
	return uint32(hi ^ lo)
}

//go:nosplit
func simRandN(n uint32) uint32 {
	return uint32((uint64(simRand32()) * uint64(n)) >> 32)
}

// simMapRandOn is constant true; it exists so the patched functions keep a
// branch structure the nosplit checker accepts.
var simMapRandOn = true
"""
open(os.path.join(out, "rand.go"), "w").write(rnd)

tm = open(os.path.join(goroot, "src/runtime/time.go")).read()
tm = must_replace(tm, "\t\t\tt.rand = cheaprand()\n", "\t\t\tt.rand = simRand32()\n", 1, "time.go")
open(os.path.join(out, "time.go"), "w").write(tm)

sel = open(os.path.join(goroot, "src/runtime/select.go")).read()
sel = must_replace(sel, "\t\tj := cheaprandn(uint32(norder + 1))\n",
                   "\t\tvar j uint32\n\t\tif gp.bubble != nil {\n\t\t\tj = simRandN(uint32(norder + 1))\n\t\t} else {\n\t\t\tj = cheaprandn(uint32(norder + 1))\n\t\t}\n", 1, "select.go")
open(os.path.join(out, "select.go"), "w").write(sel)

sema = open(os.path.join(goroot, "src/runtime/sema.go")).read()
# sync.Mutex decides "starvation mode" (direct hand-off + yield) from how long a
# waiter waited in REAL nanoseconds; inside a bubble it must see bubble time.
sema = must_replace(sema, "func internal_sync_nanotime() int64 {\n\treturn nanotime()\n}",
                    "func internal_sync_nanotime() int64 {\n\tif gp := getg(); gp.bubble != nil {\n\t\treturn gp.bubble.now\n\t}\n\treturn nanotime()\n}", 1, "sema.go")
open(os.path.join(out, "sema.go"), "w").write(sema)

proc = open(os.path.join(goroot, "src/runtime/proc.go")).read()
# sysmon must never force a running goroutine off its P after 10 ms of wall
# time: under machine load that reorders simultaneously runnable goroutines.
proc = must_replace(proc, "const forcePreemptNS = 10 * 1000 * 1000 // 10ms",
                    "const forcePreemptNS = 1 << 60 // simulator: no time-slice preemption", 1, "proc.go")
open(os.path.join(out, "proc.go"), "w").write(proc)

overlay = {"Replace": {
    os.path.join(goroot, "src/runtime/proc.go"): os.path.join(out, "proc.go"),
    os.path.join(goroot, "src/runtime/time.go"): os.path.join(out, "time.go"),
    os.path.join(goroot, "src/runtime/sema.go"): os.path.join(out, "sema.go"),
    os.path.join(goroot, "src/runtime/select.go"): os.path.join(out, "select.go"),
    os.path.join(goroot, "src/runtime/alg.go"): os.path.join(out, "alg.go"),
    os.path.join(goroot, "src/runtime/rand.go"): os.path.join(out, "rand.go"),
}}
json.dump(overlay, open(os.path.join(out, "overlay.json"), "w"), indent=1)
print("rt/gen.py: wrote", out)
