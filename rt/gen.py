#!/usr/bin/env python3
"""Generate the two patched GOROOT files and the -overlay JSON used by every
simulator build.

  runtime/alg.go   hash keys become constants (map hashing is process-independent)
  runtime/rand.go  rand(), rand32(), maps_rand() return the simulator-owned
                   variable runtime.simMapRand; cheaprand() runs on one global
                   state (runtime.simCheapRand) instead of per-M state, so
                   `select` tie-breaks do not depend on which M runs a goroutine.

Both variables are set per run by the harness through go:linkname
(-ldflags=-checklinkname=0).  The script fails loudly when an anchor line is
missing: a silently unpatched runtime would make every replay unreliable.
"""
import json, os, subprocess, sys

out = sys.argv[1] if len(sys.argv) > 1 else os.path.join(os.path.dirname(__file__), "..", "build", "goroot")
out = os.path.abspath(out)
goroot = subprocess.check_output(["go1.26.8", "env", "GOROOT"], env=dict(os.environ, GOTOOLCHAIN="local")).decode().strip()
os.makedirs(out, exist_ok=True)


def must_replace(src, old, new, count, what):
    n = src.count(old)
    if n != count:
        sys.exit("rt/gen.py: anchor %r found %d times in %s, expected %d" % (old, n, what, count))
    return src.replace(old, new)


alg = open(os.path.join(goroot, "src/runtime/alg.go")).read()
alg = must_replace(alg, "hashkey[i] = uintptr(bootstrapRand())",
                   "hashkey[i] = uintptr(0x9E3779B97F4A7C15 + uint64(i)*0x632BE59BD9B4E019)", 1, "alg.go")
alg = must_replace(alg, "key[i] = bootstrapRand()",
                   "key[i] = 0x9E3779B97F4A7C15 * uint64(2*i+1)", 1, "alg.go")
open(os.path.join(out, "alg.go"), "w").write(alg)

rnd = open(os.path.join(goroot, "src/runtime/rand.go")).read()
rnd = must_replace(rnd, "func rand32() uint32 {\n\treturn uint32(rand())\n}",
                   "func rand32() uint32 {\n\treturn uint32(simMapRand)\n}", 1, "rand.go")
rnd = must_replace(rnd, "func rand() uint64 {\n",
                   "func rand() uint64 {\n\tif simMapRandOn {\n\t\treturn simMapRand\n\t}\n", 1, "rand.go")
rnd = must_replace(rnd, "func maps_rand() uint64 {\n\treturn rand()\n}",
                   "func maps_rand() uint64 {\n\treturn simMapRand\n}", 1, "rand.go")
rnd = must_replace(rnd, "func cheaprand() uint32 {\n\tmp := getg().m\n",
                   "func cheaprand() uint32 {\n\tif simMapRandOn {\n\t\tsimCheapRand += 0xa0761d6478bd642f\n"
                   "\t\thi, lo := math.Mul64(simCheapRand, simCheapRand^0xe7037ed1a0b428db)\n"
                   "\t\treturn uint32(hi ^ lo)\n\t}\n\tmp := getg().m\n", 1, "rand.go")
rnd += """

// simMapRand is what rand()/rand32()/maps_rand() return: map iteration offsets
// and every other runtime-provided random number are a function of this value,
// which the simulator harness sets per run (go:linkname).
var simMapRand uint64 = 0x5DEECE66D

// simCheapRand is the single state of cheaprand() (select tie-breaks).
var simCheapRand uint64 = 0x2545F4914F6CDD1D

// simMapRandOn is constant true; it exists so the patched functions keep a
// branch structure the nosplit checker accepts.
var simMapRandOn = true
"""
open(os.path.join(out, "rand.go"), "w").write(rnd)

overlay = {"Replace": {
    os.path.join(goroot, "src/runtime/alg.go"): os.path.join(out, "alg.go"),
    os.path.join(goroot, "src/runtime/rand.go"): os.path.join(out, "rand.go"),
}}
json.dump(overlay, open(os.path.join(out, "overlay.json"), "w"), indent=1)
print("rt/gen.py: wrote", out)
